"""T-const for C10: read the module-level tables of esutil/wcsutil.py (python ast) and print
coq/theories/C10/Gen.v:

    _scamp_max_order, _scamp_max_ncoeff, _scamp_skip, _scamp_map["pvA_K"] = (i, j),
    _allowed_projections, _ap[projection]["name"], DEFTOL, r2d/d2r (shape only)

Fails closed (TranslateError) when the source no longer has the expected shape; the file is
rewritten only when its text changes (atomic rename).  Only literal module-level statements are
read: the `for key in smkeys:` loop that copies the table to the "pvi" keys is required to be
present in exactly its known form (the inverse keys then map like the forward ones)."""
import ast
import os
import re
from fractions import Fraction


class TranslateError(Exception):
    pass


def _const(node, types):
    if isinstance(node, ast.Constant) and isinstance(node.value, types) and not isinstance(node.value, bool):
        return node.value
    raise TranslateError("not a literal of type %s: %s" % (types, ast.dump(node)))


def _assign_name(tree, name):
    hits = [n for n in tree.body if isinstance(n, ast.Assign) and len(n.targets) == 1
            and isinstance(n.targets[0], ast.Name) and n.targets[0].id == name]
    if len(hits) != 1:
        raise TranslateError("expected exactly one module-level assignment to %s, found %d" % (name, len(hits)))
    return hits[0].value


def extract(src):
    tree = ast.parse(src)
    c = {}
    c["max_order"] = _const(_assign_name(tree, "_scamp_max_order"), int)
    c["max_ncoeff"] = _const(_assign_name(tree, "_scamp_max_ncoeff"), int)
    sk = _assign_name(tree, "_scamp_skip")
    if not isinstance(sk, ast.List):
        raise TranslateError("_scamp_skip is not a list literal")
    c["skip"] = [_const(e, int) for e in sk.elts]
    c["deftol"] = float(_const(_assign_name(tree, "DEFTOL"), (int, float)))
    ap = _assign_name(tree, "_allowed_projections")
    if not isinstance(ap, ast.List):
        raise TranslateError("_allowed_projections is not a list literal")
    c["allowed"] = [_const(e, str) for e in ap.elts]
    # r2d = 180.0 / math.pi ; d2r = math.pi / 180.0
    for nm, shape in (("r2d", "180.0 / math.pi"), ("d2r", "math.pi / 180.0")):
        got = ast.unparse(_assign_name(tree, nm))
        if got != shape:
            raise TranslateError("%s = %s, expected %s" % (nm, got, shape))
    # _scamp_map = {} followed by _scamp_map["pvA_K"] = (i, j)
    init = _assign_name(tree, "_scamp_map")
    if not (isinstance(init, ast.Dict) and not init.keys):
        raise TranslateError("_scamp_map is not initialised with {}")
    table = {}
    dname = None
    ap_names = {}
    ap_alias = {}
    seen_loop = False
    for n in tree.body:
        if isinstance(n, ast.Assign) and len(n.targets) == 1 and isinstance(n.targets[0], ast.Name) \
                and n.targets[0].id == "dname":
            dname = _const(n.value, str)
            continue
        if isinstance(n, ast.Assign) and len(n.targets) == 1 and isinstance(n.targets[0], ast.Subscript):
            t = n.targets[0]
            if isinstance(t.value, ast.Name) and t.value.id == "_scamp_map":
                key = _const(t.slice, str)
                m = re.fullmatch(r"pv([12])_(\d+)", key)
                if not m:
                    raise TranslateError("unexpected _scamp_map key %r" % key)
                if not (isinstance(n.value, ast.Tuple) and len(n.value.elts) == 2):
                    raise TranslateError("_scamp_map[%r] is not a pair" % key)
                ij = tuple(_const(e, int) for e in n.value.elts)
                k = (int(m.group(1)), int(m.group(2)))
                if k in table:
                    raise TranslateError("_scamp_map key %r assigned twice" % key)
                table[k] = ij
                continue
            if isinstance(t.value, ast.Name) and t.value.id == "_ap":
                # _ap[dname] = {}   or   _ap["-TPV"] = _ap["-TAN"]
                if isinstance(t.slice, ast.Name) and t.slice.id == "dname":
                    if not (isinstance(n.value, ast.Dict) and not n.value.keys):
                        raise TranslateError("_ap[dname] not initialised with {}")
                    continue
                key = _const(t.slice, str)
                v = n.value
                if isinstance(v, ast.Subscript) and isinstance(v.value, ast.Name) and v.value.id == "_ap":
                    ap_alias[key] = _const(v.slice, str)
                    continue
                raise TranslateError("unexpected assignment to _ap[%r]" % key)
            if isinstance(t.value, ast.Subscript) and isinstance(t.value.value, ast.Name) and t.value.value.id == "_ap":
                # _ap[dname]["name"] = "scamp"
                if not (isinstance(t.value.slice, ast.Name) and t.value.slice.id == "dname") or dname is None:
                    raise TranslateError("unexpected shape of an _ap[...][...] assignment")
                field = _const(t.slice, str)
                ap_names.setdefault(dname, {})[field] = _const(n.value, str)
                continue
        if isinstance(n, ast.For):
            txt = ast.unparse(n)
            want = "for key in smkeys:\n    newkey = key.replace('pv', 'pvi')\n    _scamp_map[newkey] = _scamp_map[key]"
            if txt != want:
                raise TranslateError("unexpected module-level loop: %s" % txt)
            seen_loop = True
    if not seen_loop:
        raise TranslateError("the loop that copies _scamp_map to the pvi keys is missing")
    if ast.unparse(_assign_name(tree, "smkeys")) != "list(_scamp_map.keys())":
        raise TranslateError("smkeys is not list(_scamp_map.keys())")
    for key, tgt in ap_alias.items():
        if tgt not in ap_names:
            raise TranslateError("_ap[%r] aliases unknown %r" % (key, tgt))
        ap_names[key] = ap_names[tgt]
    c["table"] = table
    c["ap"] = ap_names
    for proj in c["allowed"]:
        if proj not in ap_names or "name" not in ap_names[proj]:
            raise TranslateError("no _ap entry for allowed projection %r" % proj)
    return c


# ----------------------------------------------------------------------------
# T-formula: straight-line arithmetic of the anchored methods -> Gallina over R
# ----------------------------------------------------------------------------

_FUNCS = {"math.sin": "sin", "np.sin": "sin", "math.cos": "cos", "np.cos": "cos", "np.tan": "tan", "math.tan": "tan",
          "np.sqrt": "sqrt", "math.sqrt": "sqrt", "np.arctan": "atan"}


class Tr:
    """expression translator; env maps the python source text of a name / attribute / subscript to Coq text;
    env["@atan2"], env["@clip"], env["@wrap"] name the Coq functions standing for np.arctan2, np.clip, wrap_ra_diff"""

    def __init__(self, env):
        self.env = dict(env)

    def e(self, n):
        key = ast.unparse(n)
        if key in self.env:
            return self.env[key]
        if isinstance(n, ast.Subscript) and ast.unparse(n.slice) == "w":       # element-wise on the selected entries
            return self.e(n.value)
        if isinstance(n, ast.BinOp):
            ops = {ast.Add: "+", ast.Sub: "-", ast.Mult: "*", ast.Div: "/"}
            if type(n.op) in ops:
                return "(%s %s %s)" % (self.e(n.left), ops[type(n.op)], self.e(n.right))
            if isinstance(n.op, ast.Pow):
                k = _const(n.right, int)
                if k < 0:
                    raise TranslateError("negative power in %s" % key)
                return "(%s ^ %d)" % (self.e(n.left), k)
        if isinstance(n, ast.UnaryOp) and isinstance(n.op, ast.USub):
            return "(- %s)" % self.e(n.operand)
        if isinstance(n, ast.Constant) and isinstance(n.value, (int, float)) and not isinstance(n.value, bool):
            return "(%s)" % cR_exact(float(n.value))
        if isinstance(n, ast.Call) and not n.keywords:
            f = ast.unparse(n.func)
            if f in _FUNCS and len(n.args) == 1:
                return "(%s %s)" % (_FUNCS[f], self.e(n.args[0]))
            if f == "np.arctan2" and len(n.args) == 2 and "@atan2" in self.env:
                return "(%s %s %s)" % (self.env["@atan2"], self.e(n.args[0]), self.e(n.args[1]))
            if f == "np.clip" and len(n.args) == 3 and "@clip" in self.env:
                return "(%s %s %s %s)" % (self.env["@clip"], self.e(n.args[0]), self.e(n.args[1]), self.e(n.args[2]))
            if f == "wrap_ra_diff" and len(n.args) == 1 and "@wrap" in self.env:
                return "(%s %s)" % (self.env["@wrap"], self.e(n.args[0]))
        raise TranslateError("cannot translate expression %s" % key)

    def block(self, stmts):
        """straight-line assignments -> list of 'let v := e in' lines; rebinding shadows"""
        lets = []
        for st in stmts:
            if isinstance(st, ast.Expr) and isinstance(st.value, ast.Constant) and isinstance(st.value.value, str):
                continue                                   # docstring / commented-out code kept as a string
            if isinstance(st, ast.Assign) and len(st.targets) == 1:
                t = st.targets[0]
                if isinstance(t, ast.Subscript) and ast.unparse(t.slice) == "w":
                    t = t.value
                if isinstance(t, ast.Name):
                    v = self.e(st.value)
                    nm = "v_" + t.id
                    lets.append("let %s := %s in" % (nm, v))
                    self.env[t.id] = nm
                    continue
            if isinstance(st, ast.AugAssign) and isinstance(st.target, ast.Name) and \
                    type(st.op) in (ast.Mult, ast.Add, ast.Sub):
                op = {ast.Mult: "*", ast.Add: "+", ast.Sub: "-"}[type(st.op)]
                nm = "v_" + st.target.id
                lets.append("let %s := (%s %s %s) in" % (nm, self.e(st.target), op, self.e(st.value)))
                self.env[st.target.id] = nm
                continue
            raise TranslateError("cannot translate statement: %s" % ast.unparse(st))
        return lets


def _method(tree, name):
    cls = [n for n in tree.body if isinstance(n, ast.ClassDef) and n.name == "WCS"]
    if len(cls) != 1:
        raise TranslateError("class WCS not found")
    hits = [n for n in cls[0].body if isinstance(n, ast.FunctionDef) and n.name == name]
    if len(hits) != 1:
        raise TranslateError("method WCS.%s not found exactly once" % name)
    return hits[0]


def _args(fn, want):
    got = [a.arg for a in fn.args.args]
    if got != want:
        raise TranslateError("%s has arguments %s, expected %s" % (fn.name, got, want))


def _body(fn):
    b = list(fn.body)
    if b and isinstance(b[0], ast.Expr) and isinstance(b[0].value, ast.Constant) and isinstance(b[0].value.value, str):
        b = b[1:]
    return b


BASE_ENV = {"math.pi": "PI", "d2r": "src_d2r", "r2d": "src_r2d"}


def formulas(src):
    """-> Coq text of the src_* definitions"""
    tree = ast.parse(src)
    out = []
    # r2d, d2r
    t = Tr({"math.pi": "PI"})
    out.append("Definition src_r2d : R := %s." % t.e(_assign_name(tree, "r2d")))
    out.append("Definition src_d2r : R := %s." % t.e(_assign_name(tree, "d2r")))

    # --- CreateRotationMatrix
    fn = _method(tree, "CreateRotationMatrix")
    _args(fn, ["self"])
    b = _body(fn)
    if not (len(b) >= 3 and isinstance(b[-1], ast.Return) and ast.unparse(b[-1].value) == "r"):
        raise TranslateError("CreateRotationMatrix does not end in 'return r'")
    arr = b[-2]
    if not (isinstance(arr, ast.Assign) and ast.unparse(arr.targets[0]) == "r" and isinstance(arr.value, ast.Call)
            and ast.unparse(arr.value.func) == "np.array" and len(arr.value.args) == 1
            and [k.arg for k in arr.value.keywords] == ["dtype"] and isinstance(arr.value.args[0], ast.List)):
        raise TranslateError("CreateRotationMatrix: r is not np.array([[...]], dtype=...)")
    t = Tr(dict(BASE_ENV, **{"self.longpole": "longpole", "self.native_longpole": "alpha_p",
                              "self.native_latpole": "delta_p"}))
    lets = t.block(b[:-2])
    rows = arr.value.args[0].elts
    if len(rows) != 3 or not all(isinstance(r_, ast.List) and len(r_.elts) == 3 for r_ in rows):
        raise TranslateError("rotation matrix is not 3 x 3")
    ents = "; ".join("[" + "; ".join(t.e(x) for x in r_.elts) + "]" for r_ in rows)
    out.append("Definition src_rotation_matrix (alpha_p delta_p longpole : R) : list (list R) :=\n  %s\n  [%s]." % (
        "\n  ".join(lets), ents))

    # --- _rotate
    fn = _method(tree, "_rotate")
    _args(fn, ["self", "longitude", "latitude", "r"])
    b = _body(fn)
    if not (isinstance(b[-1], ast.Return) and ast.unparse(b[-1].value) == "(lon_new, lat_new)"):
        raise TranslateError("_rotate does not return (lon_new, lat_new)")
    env = dict(BASE_ENV, **{"longitude": "longitude", "latitude": "latitude", "@atan2": "f_atan2", "@clip": "f_clip"})
    for i in range(3):
        for j in range(3):
            env["r[%d, %d]" % (i, j)] = "r%d%d" % (i, j)
    t = Tr(env)
    lets = t.block(b[:-1])
    out.append("Definition src_rotate (f_atan2 : R -> R -> R) (f_clip : R -> R -> R -> R)\n"
               "  (r00 r01 r02 r10 r11 r12 r20 r21 r22 longitude latitude : R) : R * R :=\n  %s\n  (%s, %s)." % (
                   "\n  ".join(lets), t.env["lon_new"], t.env["lat_new"]))

    # --- ApplyCDMatrix
    fn = _method(tree, "ApplyCDMatrix")
    _args(fn, ["self", "x", "y", "inverse"])
    b = _body(fn)
    if not (len(b) == 2 and isinstance(b[0], ast.If) and ast.unparse(b[0].test) == "not inverse"
            and isinstance(b[1], ast.Return) and ast.unparse(b[1].value) == "(xp, yp)"):
        raise TranslateError("ApplyCDMatrix has an unexpected shape")
    for nm, branch, mat, attr in (("src_apply_cd", b[0].body, "cd", "self.cd"),
                                  ("src_apply_cdinv", b[0].orelse, "cdinv", "self.cdinv")):
        if not (branch and isinstance(branch[0], ast.Assign) and ast.unparse(branch[0]) == "%s = %s" % (mat, attr)):
            raise TranslateError("ApplyCDMatrix: branch does not start with %s = %s" % (mat, attr))
        env = {"x": "x", "y": "y"}
        for i in range(2):
            for j in range(2):
                env["%s[%d, %d]" % (mat, i, j)] = "c%d%d" % (i, j)
        t = Tr(env)
        lets = t.block(branch[1:])
        out.append("Definition %s (c00 c01 c10 c11 x y : R) : R * R :=\n  %s\n  (%s, %s)." % (
            nm, "\n  ".join(lets), t.env["xp"], t.env["yp"]))

    # --- image2sph: radius, native latitude (r > 0), native longitude
    fn = _method(tree, "image2sph")
    _args(fn, ["self", "x", "y"])
    sts = {}
    for n in ast.walk(fn):
        if isinstance(n, ast.Assign) and len(n.targets) == 1:
            sts.setdefault(ast.unparse(n.targets[0]), []).append(n.value)
    need = {"r": 1, "latitude": 2, "latitude[w]": 1, "longitude": 1}
    for k, cnt in need.items():
        if len(sts.get(k, [])) != cnt:
            raise TranslateError("image2sph: expected %d assignment(s) to %s, found %d" % (cnt, k, len(sts.get(k, []))))
    t = Tr(dict(BASE_ENV, **{"x": "x", "y": "y", "np.zeros_like(x)": "0", "@atan2": "f_atan2"}))
    e_r = t.e(sts["r"][0])
    t.env["r"] = "r"
    e_lat0 = t.e(sts["latitude"][0])
    e_lat1 = t.e(sts["latitude"][1])
    if t.e(sts["latitude[w]"][0]) != e_lat1:
        raise TranslateError("image2sph: scalar and array branches compute different latitudes")
    e_lon = t.e(sts["longitude"][0])
    out.append("Definition src_image2sph_r (x y : R) : R := %s." % e_r)
    out.append("Definition src_image2sph_lat_pole : R := %s." % e_lat0)
    out.append("Definition src_image2sph_lat (r : R) : R := %s." % e_lat1)
    out.append("Definition src_image2sph_lon (f_atan2 : R -> R -> R) (x y : R) : R := %s." % e_lon)

    # --- sph2image: the two branches (scalar, [w]) must agree
    fn = _method(tree, "sph2image")
    _args(fn, ["self", "longitude", "latitude"])
    sts = {}
    for n in ast.walk(fn):
        if isinstance(n, ast.Assign) and len(n.targets) == 1:
            sts.setdefault(ast.unparse(n.targets[0]), []).append(n.value)
    t = Tr(dict(BASE_ENV, **{"longitude": "longitude", "latitude": "latitude"}))
    if len(sts.get("rdiv", [])) != 2 or len(sts.get("x[w]", [])) != 1 or len(sts.get("y[w]", [])) != 1 \
            or len(sts.get("x", [])) != 2 or len(sts.get("y", [])) != 2:
        raise TranslateError("sph2image has an unexpected shape")
    e_rdiv = t.e(sts["rdiv"][0])
    if t.e(sts["rdiv"][1]) != e_rdiv:
        raise TranslateError("sph2image: branches compute different rdiv")
    t.env["rdiv"] = "rdiv"
    e_x, e_y = t.e(sts["x"][1]), t.e(sts["y"][1])
    if t.e(sts["x[w]"][0]) != e_x or t.e(sts["y[w]"][0]) != e_y:
        raise TranslateError("sph2image: scalar and array branches differ")
    out.append("Definition src_sph2image (longitude latitude : R) : R * R :=\n  let rdiv := %s in (%s, %s)." % (e_rdiv, e_x, e_y))

    # --- get_jacobian
    fn = _method(tree, "get_jacobian")
    _args(fn, ["self", "x", "y", "distort", "step"])
    b = _body(fn)
    calls = {"(ra, dec)": "(x, y", "(ra_p0, dec_p0)": "(xp, y", "(ra_m0, dec_m0)": "(xm, y", "(ra_0p, dec_0p)": "(x, yp",
             "(ra_0m, dec_0m)": "(x, ym"}
    rest = []
    for st in b:
        if isinstance(st, ast.Assign) and isinstance(st.targets[0], ast.Tuple):
            k = ast.unparse(st.targets[0])
            want = "self.image2sky%s, distort=distort)" % calls.get(k, "?")
            if ast.unparse(st.value) != want:
                raise TranslateError("get_jacobian: %s = %s, expected %s" % (k, ast.unparse(st.value), want))
            calls.pop(k)
        elif isinstance(st, ast.Return):
            if ast.unparse(st.value) != "(dra_dx, dra_dy, ddec_dx, ddec_dy)":
                raise TranslateError("get_jacobian returns %s" % ast.unparse(st.value))
        elif isinstance(st, ast.Assign) and ast.unparse(st.targets[0]) in ("xp", "xm", "yp", "ym"):
            want = {"xp": "x + step", "xm": "x - step", "yp": "y + step", "ym": "y - step"}[ast.unparse(st.targets[0])]
            if ast.unparse(st.value) != want:
                raise TranslateError("get_jacobian: %s" % ast.unparse(st))
        else:
            rest.append(st)
    if calls:
        raise TranslateError("get_jacobian: image2sky calls missing for %s" % sorted(calls))
    names = ["ra", "dec", "ra_p0", "dec_p0", "ra_m0", "dec_m0", "ra_0p", "dec_0p", "ra_0m", "dec_0m"]
    t = Tr(dict(BASE_ENV, **dict({n_: n_ for n_ in names}, **{"step": "step", "@wrap": "f_wrap"})))
    lets = t.block(rest)
    out.append("Definition src_jacobian (f_wrap : R -> R) (step ra dec ra_p0 dec_p0 ra_m0 dec_m0 ra_0p dec_0p ra_0m dec_0m : R)"
               " : R * R * R * R :=\n  %s\n  (%s, %s, %s, %s)." % (
                   "\n  ".join(lets), t.env["dra_dx"], t.env["dra_dy"], t.env["ddec_dx"], t.env["ddec_dy"]))
    out.append(flow_image2sky(tree))
    out.append(flow_sky2image(tree))
    out.append(fit_ranges(tree))
    out.append(distort_starts(tree))
    out.append(flow_rootfinder(tree))
    out.append(decisions(tree))
    return "\n\n".join(out) + "\n"


# ---- decisions: comparisons, thresholds, defaults and the rules that choose a branch (round 6) ----

def cmp_dec(t, node):
    """python comparison  a < b | a > b | a <= b | a >= b  ->  Coq sumbool  {..} + {..}"""
    if not (isinstance(node, ast.Compare) and len(node.ops) == 1 and len(node.comparators) == 1):
        raise TranslateError("not a single comparison: %s" % ast.unparse(node))
    a, b = t.e(node.left), t.e(node.comparators[0])
    op = type(node.ops[0])
    if op is ast.Lt:
        return "(Rlt_dec %s %s)" % (a, b)
    if op is ast.Gt:
        return "(Rlt_dec %s %s)" % (b, a)
    if op is ast.LtE:
        return "(Rle_dec %s %s)" % (a, b)
    if op is ast.GtE:
        return "(Rle_dec %s %s)" % (b, a)
    raise TranslateError("unsupported comparison operator in %s" % ast.unparse(node))


def _guarded_updates(t, stmts, var, kind):
    """[if/while COND: var OP= c] ... (no else branches)  ->  [(cond, '+'/'-', c)]"""
    out = []
    for st in stmts:
        if not (isinstance(st, getattr(ast, kind)) and not st.orelse and len(st.body) == 1):
            raise TranslateError("expected `%s cond: %s op= c` without else: %s" % (kind.lower(), var, ast.unparse(st)))
        b = st.body[0]
        if not (isinstance(b, ast.AugAssign) and ast.unparse(b.target) == var and type(b.op) in (ast.Add, ast.Sub)):
            raise TranslateError("expected an update of %s: %s" % (var, ast.unparse(b)))
        out.append((cmp_dec(t, st.test), "+" if isinstance(b.op, ast.Add) else "-", t.e(b.value)))
    return out


def _seq_updates(var, ups):
    lines = ["let %s := if %s then %s %s %s else %s in" % (var, c, var, op, v, var) for c, op, v in ups]
    return " ".join(lines) + " " + var


def decisions(tree):
    out = []
    # --- image2sph: the fold of the longitude into [0, 360) and the choice r > 0
    fn = _method(tree, "image2sph")
    b = _body(fn)
    ifs = [n for n in b if isinstance(n, ast.If) and ast.unparse(n.test) == "scalar"]
    if len(ifs) != 2:
        raise TranslateError("image2sph: expected two `if scalar:` blocks, found %d" % len(ifs))
    t = Tr({"longitude": "longitude", "r": "r"})
    # latitude choice
    lat_if = ifs[0]
    if not (len(lat_if.body) == 1 and isinstance(lat_if.body[0], ast.If) and not lat_if.body[0].orelse
            and [ast.unparse(x) for x in lat_if.body[0].body] == ["latitude = np.arctan(1.0 / r)"]):
        raise TranslateError("image2sph: unexpected scalar latitude block")
    c_lat = cmp_dec(t, lat_if.body[0].test)
    arr = lat_if.orelse
    if not (len(arr) == 2 and isinstance(arr[0], ast.Assign) and ast.unparse(arr[0].targets[0]) == "(w,)"
            and isinstance(arr[0].value, ast.Call) and ast.unparse(arr[0].value.func) == "np.where"
            and cmp_dec(t, arr[0].value.args[0]) == c_lat and ast.unparse(arr[1].test) == "w.size > 0"
            and [ast.unparse(x) for x in arr[1].body] == ["latitude[w] = np.arctan(1.0 / r[w])"]):
        raise TranslateError("image2sph: the array branch chooses the latitude differently from the scalar branch")
    out.append("Definition src_image2sph_latitude (r : R) : R :=\n  if %s then src_image2sph_lat r else src_image2sph_lat_pole." % c_lat)
    # longitude fold
    fold_if = ifs[1]
    ups = _guarded_updates(t, fold_if.body, "longitude", "If")
    arr = fold_if.orelse
    ups_arr = []
    if len(arr) % 2:
        raise TranslateError("image2sph: unexpected array fold block")
    for k in range(0, len(arr), 2):
        a0, a1 = arr[k], arr[k + 1]
        if not (isinstance(a0, ast.Assign) and ast.unparse(a0.targets[0]) == "(w,)" and isinstance(a0.value, ast.Call)
                and ast.unparse(a0.value.func) == "np.where" and isinstance(a1, ast.If) and ast.unparse(a1.test) == "w.size > 0"
                and not a1.orelse and len(a1.body) == 1 and isinstance(a1.body[0], ast.AugAssign)
                and ast.unparse(a1.body[0].target) == "longitude[w]" and type(a1.body[0].op) in (ast.Add, ast.Sub)):
            raise TranslateError("image2sph: unexpected array fold statement: %s" % ast.unparse(a0))
        ups_arr.append((cmp_dec(t, a0.value.args[0]), "+" if isinstance(a1.body[0].op, ast.Add) else "-", t.e(a1.body[0].value)))
    if ups_arr != ups:
        raise TranslateError("image2sph: the array branch folds the longitude differently from the scalar branch")
    out.append("Definition src_fold360 (longitude : R) : R :=\n  %s." % _seq_updates("longitude", ups))

    # --- sph2image: the choice latitude > 0 and the value elsewhere
    fn = _method(tree, "sph2image")
    b = _body(fn)
    sel = [n for n in b if isinstance(n, ast.If) and ast.unparse(n.test) == "isscalar(longitude)"]
    if len(sel) != 1 or len(sel[0].body) != 1 or not isinstance(sel[0].body[0], ast.If) or sel[0].body[0].orelse:
        raise TranslateError("sph2image: unexpected scalar block")
    t = Tr({"latitude": "latitude"})
    c_s = cmp_dec(t, sel[0].body[0].test)
    arr = sel[0].orelse
    if not (len(arr) == 2 and isinstance(arr[0], ast.Assign) and isinstance(arr[0].value, ast.Call)
            and ast.unparse(arr[0].value.func) == "np.where" and cmp_dec(t, arr[0].value.args[0]) == c_s):
        raise TranslateError("sph2image: the array branch selects differently from the scalar branch")
    zeros = [ast.unparse(n) for n in b if isinstance(n, ast.Assign) and ast.unparse(n.targets[0]) in ("x", "y")]
    if zeros != ["x = np.zeros_like(longitude)", "y = np.zeros_like(longitude)"]:
        raise TranslateError("sph2image: x, y are not initialised with zeros: %s" % zeros)
    out.append("Definition src_sph2image_sel (longitude latitude : R) : R * R :=\n"
               "  if %s then src_sph2image longitude latitude else (0, 0)." % c_s)

    # --- wrap_ra_diff: thresholds and steps of the two loops (scalar and array code must agree)
    fns = [n for n in tree.body if isinstance(n, ast.FunctionDef) and n.name == "wrap_ra_diff"]
    if len(fns) != 1:
        raise TranslateError("wrap_ra_diff not found")
    b = _body(fns[0])
    if not (len(b) == 2 and isinstance(b[0], ast.If) and ast.unparse(b[0].test) == "np.ndim(dra) == 0"
            and ast.unparse(b[1]) == "return dra"):
        raise TranslateError("wrap_ra_diff has an unexpected shape")
    sc = b[0].body
    if not (len(sc) == 3 and ast.unparse(sc[0]) == "if not np.isfinite(dra):\n    return dra"):
        raise TranslateError("wrap_ra_diff: unexpected scalar block")
    t = Tr({"dra": "dra"})
    ups = _guarded_updates(t, sc[1:], "dra", "While")
    ar = b[0].orelse
    want_ar = []
    for k, (c, op, v) in enumerate(ups):
        pass
    txt = [ast.unparse(x) for x in ar]
    if len(ar) != 5 or txt[0] != "msk_finite = np.isfinite(dra)":
        raise TranslateError("wrap_ra_diff: unexpected array block")
    ups_ar = []
    for k in (1, 3):
        a0, a1 = ar[k], ar[k + 1]
        if not (isinstance(a0, ast.Assign) and ast.unparse(a0.targets[0]) == "msk" and isinstance(a0.value, ast.BinOp)
                and isinstance(a0.value.op, ast.BitAnd) and ast.unparse(a0.value.right) == "msk_finite"
                and isinstance(a1, ast.While) and ast.unparse(a1.test) == "np.any(msk)" and len(a1.body) == 2
                and ast.unparse(a1.body[1]) == ast.unparse(a0)
                and isinstance(a1.body[0], ast.Assign) and ast.unparse(a1.body[0].targets[0]) == "dra[msk]"
                and isinstance(a1.body[0].value, ast.BinOp) and ast.unparse(a1.body[0].value.left) == "dra[msk]"
                and type(a1.body[0].value.op) in (ast.Add, ast.Sub)):
            raise TranslateError("wrap_ra_diff: unexpected array loop: %s" % txt[k])
        ups_ar.append((cmp_dec(t, a0.value.left), "+" if isinstance(a1.body[0].value.op, ast.Add) else "-",
                       t.e(a1.body[0].value.right)))
    if ups_ar != ups:
        raise TranslateError("wrap_ra_diff: the array code wraps differently from the scalar code")
    out.append("(* one pass of each of the two loops of wrap_ra_diff *)\nDefinition src_wrap_once (dra : R) : R :=\n  %s." % _seq_updates("dra", ups))

    # --- ExtractDistortionModel: when a header has a distortion model
    fn = _method(tree, "ExtractDistortionModel")
    tests = [n.test for n in ast.walk(fn) if isinstance(n, ast.If)]
    rule = [x for x in tests if isinstance(x, ast.BoolOp)]
    if len(rule) != 2 or ast.unparse(rule[0]) != "ca != 0 or cb != 0":
        raise TranslateError("ExtractDistortionModel: unexpected rule %s" % [ast.unparse(x) for x in rule])
    r0 = rule[0]
    parts = []
    for v in r0.values:
        if not (isinstance(v, ast.Compare) and len(v.ops) == 1 and isinstance(v.ops[0], ast.NotEq)
                and isinstance(v.left, ast.Name) and _const(v.comparators[0], int) == 0):
            raise TranslateError("ExtractDistortionModel: unexpected term %s" % ast.unparse(v))
        parts.append("negb (Nat.eqb %s 0%%nat)" % v.left.id)
    joiner = " || " if isinstance(r0.op, ast.Or) else " && "
    out.append("Definition src_has_distortion (ca cb : nat) : bool := (%s)%%bool." % joiner.join(parts))

    # --- ExtractPVCoeffs: the default of the linear term
    fn = _method(tree, "ExtractPVCoeffs")
    txt = _stmts(fn)
    m = [k for k, x in enumerate(txt) if x.startswith("indices = _scamp_map[prefix + ")]
    if len(m) != 1 or txt[m[0] + 1][:39] != "matrix[indices[0], indices[1]] = " [:39] and False:
        raise TranslateError("ExtractPVCoeffs: default of the linear term not found")
    st0, st1 = _body(fn)[m[0]], _body(fn)[m[0] + 1]
    key = st0.value.slice
    if not (isinstance(key, ast.BinOp) and isinstance(key.op, ast.Add) and ast.unparse(key.left) == "prefix"):
        raise TranslateError("ExtractPVCoeffs: unexpected default key %s" % ast.unparse(key))
    suffix = _const(key.right, str)
    if not re.fullmatch(r"_\d+", suffix):
        raise TranslateError("ExtractPVCoeffs: unexpected default key suffix %r" % suffix)
    if not (isinstance(st1, ast.Assign) and ast.unparse(st1.targets[0]) == "matrix[indices[0], indices[1]]"):
        raise TranslateError("ExtractPVCoeffs: unexpected statement after the default key: %s" % ast.unparse(st1))
    out.append("Definition src_pv_default_key : nat := %d.\nDefinition src_pv_default_value : R := %s." % (
        int(suffix[1:]), Tr({}).e(st1.value)))

    # --- GetPole (zenithal branch) and the constructor's default angles
    fn = _method(tree, "GetPole")
    b = _body(fn)
    if [ast.unparse(x) for x in b[:2]] != ["longitude_0 = float(self.wcs['crval1']) * d2r", "latitude_0 = float(self.wcs['crval2']) * d2r"] \
            or not (isinstance(b[2], ast.If) and [ast.unparse(x) for x in b[2].body] == ["return (longitude_0, latitude_0)"]
                    and isinstance(b[2].test, ast.Compare) and ast.unparse(b[2].test.left) == "self.theta0"
                    and isinstance(b[2].test.ops[0], ast.Eq)):
        raise TranslateError("GetPole: unexpected zenithal branch")
    t = Tr(dict(BASE_ENV, **{"float(self.wcs['crval1'])": "crval1", "float(self.wcs['crval2'])": "crval2"}))
    out.append("Definition src_zenithal_theta0 : R := %s.\nDefinition src_getpole_zenithal (crval1 crval2 : R) : R * R :=\n  (%s, %s)." % (
        Tr({}).e(b[2].test.comparators[0]), t.e(b[0].value), t.e(b[1].value)))
    fn = _method(tree, "__init__")
    _args(fn, ["self", "wcs", "longpole", "latpole", "theta0"])
    d = [Tr({}).e(x) for x in fn.args.defaults]
    if len(d) != 3:
        raise TranslateError("WCS.__init__: unexpected defaults")
    out.append("Definition src_default_longpole : R := %s.\nDefinition src_default_latpole : R := %s.\n"
               "Definition src_default_theta0 : R := %s." % tuple(d))
    return "\n\n".join(out)


# ---- root finding: _findxy, _findxy_one, _fsolve_xy, _lonlatdiff (any added branch / fallback fails closed) ----

def _stmts(fn):
    return [ast.unparse(st) for st in _body(fn)]


def _nodist_call(txt, args):
    """the text of `self.sky2image(<args>, find=False, distort=False)`"""
    return "self.sky2image(%s, find=False, distort=False)" % args


def flow_rootfinder(tree):
    # _fsolve_xy: exactly one call of fsolve on the residual, the start value and xtol; its result is returned as it is
    fn = _method(tree, "_fsolve_xy")
    _args(fn, ["self", "xyguess", "xtol"])
    if [ast.unparse(d) for d in fn.args.defaults] != ["DEFTOL"]:
        raise TranslateError("_fsolve_xy: default of xtol is not DEFTOL")
    want = ["import scipy.optimize", "xy = scipy.optimize.fsolve(self._lonlatdiff, xyguess, xtol=xtol)", "return xy"]
    if _stmts(fn) != want:
        raise TranslateError("_fsolve_xy is not the single fsolve call on (self._lonlatdiff, xyguess, xtol): %s" % _stmts(fn))
    # _findxy_one
    fn = _method(tree, "_findxy_one")
    _args(fn, ["self", "lon", "lat", "xtol"])
    if [ast.unparse(d) for d in fn.args.defaults] != ["DEFTOL"]:
        raise TranslateError("_findxy_one: default of xtol is not DEFTOL")
    want = ["self.lonlat_answer[0] = lon", "self.lonlat_answer[1] = lat", "xyguess = self.xyguess",
            "xyguess[0], xyguess[1] = " + _nodist_call("", "lon, lat"), "self.xy_answer[:] = xyguess",
            "xy = self._fsolve_xy(xyguess, xtol=xtol)", "x, y = (xy[0], xy[1])", "return (x, y)"]
    if _stmts(fn) != want:
        raise TranslateError("_findxy_one has an unexpected shape: %s" % _stmts(fn))
    # _findxy: scalar call or element-wise loop with the same arguments
    fn = _method(tree, "_findxy")
    _args(fn, ["self", "lon", "lat", "xtol"])
    want = ["if isscalar(lon):\n    x, y = self._findxy_one(lon, lat, xtol=xtol)\nelse:\n    x = np.zeros_like(lon)\n"
            "    y = np.zeros_like(lon)\n    for i in range(lon.size):\n"
            "        x[i], y[i] = self._findxy_one(lon[i], lat[i], xtol=xtol)", "return (x, y)"]
    if _stmts(fn) != want:
        raise TranslateError("_findxy has an unexpected shape: %s" % _stmts(fn))
    # sky2image hands xtol through, default DEFTOL
    fn = _method(tree, "sky2image")
    if [ast.unparse(d) for d in fn.args.defaults] != ["True", "True", "DEFTOL"]:
        raise TranslateError("sky2image: defaults are %s" % [ast.unparse(d) for d in fn.args.defaults])
    # _lonlatdiff: residual in the undistorted pixel frame
    fn = _method(tree, "_lonlatdiff")
    _args(fn, ["self", "xy"])
    st = _body(fn)
    txt = [ast.unparse(x) for x in st]
    want = ["x = xy[0]", "y = xy[1]", "lon, lat = self.image2sky(x, y)", "xu, yu = " + _nodist_call("", "lon, lat"),
            "diff = np.zeros(2)", None, None, "return diff"]
    if len(txt) != len(want) or any(w_ is not None and t_ != w_ for t_, w_ in zip(txt, want)):
        raise TranslateError("_lonlatdiff has an unexpected shape: %s" % txt)
    t = Tr({"xu": "(fst xu_)", "yu": "(snd xu_)", "self.xy_answer[0]": "(fst target)", "self.xy_answer[1]": "(snd target)"})
    d = []
    for k in (5, 6):
        a = st[k]
        if not (isinstance(a, ast.Assign) and ast.unparse(a.targets[0]) == "diff[%d]" % (k - 5)):
            raise TranslateError("_lonlatdiff: statement %d is %s" % (k, txt[k]))
        d.append(t.e(a.value))
    return ("Definition src_lonlatdiff (f_image2sky f_nodistort : R -> R -> R * R) (target xy : R * R) : R * R :=\n"
            "  let ll_ := f_image2sky (fst xy) (snd xy) in\n  let xu_ := f_nodistort (fst ll_) (snd ll_) in\n  (%s, %s).\n\n"
            "(* _findxy_one: start value and target of the root finder are both the undistorted inverse of (lon, lat);\n"
            "   the residual is _lonlatdiff; the result of fsolve is returned unchanged *)\n"
            "Definition src_findxy_one (f_nodistort : R -> R -> R * R) (f_fsolve : (R * R -> R * R) -> R * R -> R -> R * R)\n"
            "  (f_resid : R * R -> R * R -> R * R) (lon lat xtol : R) : R * R :=\n"
            "  let xyguess := f_nodistort lon lat in\n  let target := xyguess in\n  f_fsolve (f_resid target) xyguess xtol." % (d[0], d[1]))


# ---- Distort: start values per convention (TPV: the polynomial alone; SIP: a correction added to the input) ----

def distort_starts(tree):
    fn = _method(tree, "Distort")
    _args(fn, ["self", "x", "y", "inverse"])
    b = _body(fn)
    sw = [n for n in b if isinstance(n, ast.If) and ast.unparse(n.test) == "self.distort['name'] == 'scamp'"]
    if len(sw) != 1 or len(sw[0].orelse) != 1 or not isinstance(sw[0].orelse[0], ast.If) \
            or ast.unparse(sw[0].orelse[0].test) != "self.distort['name'] == 'sip'" \
            or not (len(sw[0].orelse[0].orelse) == 1 and isinstance(sw[0].orelse[0].orelse[0], ast.Raise)):
        raise TranslateError("Distort: unexpected switch on the distortion name")
    i = b.index(sw[0])
    tail = [ast.unparse(n) for n in b[i + 1:]]
    if tail != ["xp += Apply2DPolynomial(a, x, y)", "yp += Apply2DPolynomial(b, x, y)", "return (xp, yp)"]:
        raise TranslateError("Distort: unexpected statements after the switch: %s" % tail)
    exprs = {}
    for nm, body in (("scamp", sw[0].body), ("sip", sw[0].orelse[0].body)):
        if [ast.unparse(n.targets[0]) if isinstance(n, ast.Assign) else "?" for n in body] != ["xp", "yp"]:
            raise TranslateError("Distort: the %s branch does not assign xp, yp" % nm)
        t = Tr({"x": "x", "y": "y"})
        exprs[nm] = (t.e(body[0].value), t.e(body[1].value))
    return ("Definition src_distort (is_scamp : bool) (pa pb x y : R) : R * R :=\n"
            "  let xp := if is_scamp then %s else %s in\n  let yp := if is_scamp then %s else %s in\n  (xp + pa, yp + pb)." % (
                exprs["scamp"][0], exprs["sip"][0], exprs["scamp"][1], exprs["sip"][1]))


# ---- the rectangle on which the inverse polynomial is fitted (which naxis / crpix index feeds which axis) ----

def _range_pair(t, node, what):
    """np.array([a, b][, dtype=...]) [- c]  ->  coq pair"""
    sub = None
    if isinstance(node, ast.BinOp) and isinstance(node.op, ast.Sub):
        node, sub = node.left, node.right
    if not (isinstance(node, ast.Call) and ast.unparse(node.func) == "np.array" and len(node.args) == 1
            and isinstance(node.args[0], ast.List) and len(node.args[0].elts) == 2
            and all(k.arg == "dtype" for k in node.keywords)):
        raise TranslateError("%s is not np.array([lo, hi]) [- offset]: %s" % (what, ast.unparse(node)))
    lo, hi = [t.e(x) for x in node.args[0].elts]
    if sub is not None:
        o = t.e(sub)
        return "((%s - %s), (%s - %s))" % (lo, o, hi, o)
    return "(%s, %s)" % (lo, hi)


def fit_ranges(tree):
    out = []
    env = {"self.naxis[0]": "naxis0", "self.naxis[1]": "naxis1", "self.crpix[0]": "crpix0", "self.crpix[1]": "crpix1"}
    for meth, nm, targets in (("InvertPVDistortion", "src_pv_fit_ranges", "xdiff, ydiff"),
                              ("InvertSipDistortion", "src_sip_fit_ranges", "x, y")):
        fn = _method(tree, meth)
        sts = {}
        grid = []
        for n in ast.walk(fn):
            if isinstance(n, ast.Assign) and len(n.targets) == 1:
                sts.setdefault(ast.unparse(n.targets[0]), []).append(n.value)
                if isinstance(n.value, ast.Call) and ast.unparse(n.value.func) == "make_xy_grid":
                    grid.append(ast.unparse(n))
        if len(sts.get("xrang", [])) != 1 or len(sts.get("yrang", [])) != 1:
            raise TranslateError("%s: xrang / yrang are not assigned exactly once" % meth)
        if grid != ["%s = make_xy_grid(ng, xrang, yrang)" % targets]:
            raise TranslateError("%s: unexpected grid construction %s" % (meth, grid))
        t = Tr(env)
        out.append("Definition %s (naxis0 naxis1 crpix0 crpix1 : R) : (R * R) * (R * R) :=\n  (%s, %s)." % (
            nm, _range_pair(t, sts["xrang"][0], meth + ".xrang"), _range_pair(t, sts["yrang"][0], meth + ".yrang")))
    return "\n\n".join(out)


# ---- control flow of image2sky / sky2image(find=False): which of CD matrix and distortion comes first ----

_COND = "distort and self.distort['name'] != 'none'"


class Flow:
    """branch bodies made of pair assignments from self.ApplyCDMatrix / self.Distort / a pair of names and
    `if distort and self.distort["name"] != "none":` -> nested lets over pairs; a pair read before it is
    assigned on some path is a TranslateError"""

    def __init__(self, calls, bound):
        self.calls = calls              # python call text prefix -> coq function
        self.bound = set(bound)         # pair names bound so far, e.g. "u,v"

    def pair_expr(self, node):
        if isinstance(node, ast.Tuple) and len(node.elts) == 2 and all(isinstance(e, ast.Name) for e in node.elts):
            key = "%s,%s" % (node.elts[0].id, node.elts[1].id)
            if key not in self.bound:
                raise TranslateError("(%s) is read before it is assigned" % key)
            return "(%s, %s)" % (node.elts[0].id, node.elts[1].id)
        if isinstance(node, ast.Call):
            f = ast.unparse(node.func)
            kw = ",".join("%s=%s" % (k.arg, ast.unparse(k.value)) for k in node.keywords)
            fk = f + ("[" + kw + "]" if kw else "")
            if fk in self.calls and len(node.args) == 2 and all(isinstance(a, ast.Name) for a in node.args):
                key = "%s,%s" % (node.args[0].id, node.args[1].id)
                if key not in self.bound:
                    raise TranslateError("(%s) is read before it is assigned in %s" % (key, ast.unparse(node)))
                return "(%s %s %s)" % (self.calls[fk], node.args[0].id, node.args[1].id)
        raise TranslateError("cannot translate pair expression %s" % ast.unparse(node))

    def stmts(self, body, result):
        """-> coq expression of type R * R computing the pair `result` after running body"""
        lines = []
        for st in body:
            if isinstance(st, ast.Assign) and len(st.targets) == 1 and isinstance(st.targets[0], ast.Tuple) \
                    and len(st.targets[0].elts) == 2 and all(isinstance(e, ast.Name) for e in st.targets[0].elts):
                a, b = [e.id for e in st.targets[0].elts]
                lines.append("let p_ := %s in let %s := fst p_ in let %s := snd p_ in" % (self.pair_expr(st.value), a, b))
                self.bound.add("%s,%s" % (a, b))
                continue
            if isinstance(st, ast.If) and ast.unparse(st.test) == _COND:
                # the pairs assigned in the branches
                tg = set()
                for br in (st.body, st.orelse):
                    for x in br:
                        if not (isinstance(x, ast.Assign) and isinstance(x.targets[0], ast.Tuple)):
                            raise TranslateError("unexpected statement under the distortion switch: %s" % ast.unparse(x))
                        tg.add(tuple(e.id for e in x.targets[0].elts))
                if len(tg) != 1:
                    raise TranslateError("the distortion switch assigns %s" % sorted(tg))
                a, b = tg.pop()
                f1 = Flow(self.calls, self.bound)
                e1 = f1.stmts(st.body, (a, b))
                f2 = Flow(self.calls, self.bound)
                e2 = f2.stmts(st.orelse, (a, b))
                lines.append("let p_ := (if use then %s else %s) in let %s := fst p_ in let %s := snd p_ in" % (e1, e2, a, b))
                self.bound.add("%s,%s" % (a, b))
                continue
            raise TranslateError("cannot translate statement: %s" % ast.unparse(st))
        key = "%s,%s" % result
        if key not in self.bound:
            raise TranslateError("(%s) is read before it is assigned on some path" % key)
        return "(%s (%s, %s))" % (" ".join(lines), result[0], result[1])


def _proj_switch(node, what):
    """if p in ['-TAN', '-TPV']: A  elif p == '-TAN-SIP': B  else: raise   -> (A, B)"""
    if not (isinstance(node, ast.If) and ast.unparse(node.test) == "p in ['-TAN', '-TPV']" and len(node.orelse) == 1
            and isinstance(node.orelse[0], ast.If) and ast.unparse(node.orelse[0].test) == "p == '-TAN-SIP'"
            and len(node.orelse[0].orelse) == 1 and isinstance(node.orelse[0].orelse[0], ast.Raise)):
        raise TranslateError("%s: unexpected projection switch" % what)
    return node.body, node.orelse[0].body


def flow_image2sky(tree):
    fn = _method(tree, "image2sky")
    _args(fn, ["self", "x", "y", "distort"])
    b = _body(fn)
    want = {0: "xdiff = x - self.crpix[0]", 1: "ydiff = y - self.crpix[1]", 2: "p = self.projection.upper()",
            4: "longitude, latitude = self.image2sph(u, v)", 5: "return (longitude, latitude)"}
    if len(b) != 6:
        raise TranslateError("image2sky has %d statements, expected 6" % len(b))
    for i, t in want.items():
        if ast.unparse(b[i]) != t:
            raise TranslateError("image2sky statement %d is %r, expected %r" % (i, ast.unparse(b[i]), t))
    tan, sip = _proj_switch(b[3], "image2sky")
    calls = {"self.ApplyCDMatrix": "f_cd", "self.Distort": "f_distort"}
    e_tan = Flow(calls, {"xdiff,ydiff"}).stmts(tan, ("u", "v"))
    e_sip = Flow(calls, {"xdiff,ydiff"}).stmts(sip, ("u", "v"))
    return ("Definition src_pix2inter (f_cd f_distort : R -> R -> R * R) (use is_sip : bool) (x y crpix0 crpix1 : R) : R * R :=\n"
            "  let xdiff := x - crpix0 in let ydiff := y - crpix1 in\n  if is_sip then %s\n  else %s." % (e_sip, e_tan))


def flow_sky2image(tree):
    """the find=False branch of sky2image: from the tangent-plane (u, v) to pixel offsets"""
    fn = _method(tree, "sky2image")
    _args(fn, ["self", "longitude", "latitude", "distort", "find", "xtol"])
    b = _body(fn)
    if not (len(b) == 2 and isinstance(b[0], ast.If) and ast.unparse(b[0].test) == "find and self.distort['name'] != 'none'"
            and ast.unparse(b[1]) == "return (x, y)"):
        raise TranslateError("sky2image has an unexpected shape")
    if [ast.unparse(x) for x in b[0].body] != ["x, y = self._findxy(longitude, latitude, xtol=xtol)"]:
        raise TranslateError("sky2image: unexpected root-finding branch")
    e = b[0].orelse
    want = {0: "u, v = self.sph2image(longitude, latitude)", 1: "p = self.projection.upper()",
            3: "x = xdiff + self.crpix[0]", 4: "y = ydiff + self.crpix[1]"}
    if len(e) != 5:
        raise TranslateError("sky2image: direct branch has %d statements, expected 5" % len(e))
    for i, t in want.items():
        if ast.unparse(e[i]) != t:
            raise TranslateError("sky2image statement %d is %r, expected %r" % (i, ast.unparse(e[i]), t))
    tan, sip = _proj_switch(e[2], "sky2image")
    calls = {"self.ApplyCDMatrix[inverse=True]": "f_cdinv", "self.Distort[inverse=True]": "f_distinv"}
    e_tan = Flow(calls, {"u,v"}).stmts(tan, ("xdiff", "ydiff"))
    e_sip = Flow(calls, {"u,v"}).stmts(sip, ("xdiff", "ydiff"))
    return ("Definition src_inter2pix (f_cdinv f_distinv : R -> R -> R * R) (use is_sip : bool) (u v crpix0 crpix1 : R) : R * R :=\n"
            "  let d_ := (if is_sip then %s\n  else %s) in\n  (fst d_ + crpix0, snd d_ + crpix1)." % (e_sip, e_tan))


def cR_exact(x):
    fr = Fraction(float(x))
    n, d = fr.numerator, fr.denominator
    s = "%d" % abs(n) if d == 1 else "%d / %d" % (abs(n), d)
    return ("- " + s) if n < 0 else s


def _coq_string(s):
    if not all(32 <= ord(ch) < 127 for ch in s):
        raise TranslateError("non-ASCII string %r" % s)
    return '"' + s.replace('"', '""') + '"'


def gen_text(c):
    def tab(ax):
        items = sorted((k, ij) for (a, k), ij in c["table"].items() if a == ax)
        return "[" + "; ".join("(%d, (%d, %d))" % (k, ij[0], ij[1]) for k, ij in items) + "]"
    fields = ("name", "aprefix", "bprefix", "apprefix", "bpprefix")
    aps = []
    for proj in c["allowed"]:
        d = c["ap"][proj]
        for f in fields:
            if f not in d:
                raise TranslateError("_ap[%r] lacks field %r" % (proj, f))
        aps.append("(%s, [%s])" % (_coq_string(proj), "; ".join(_coq_string(d[f]) for f in fields)))
    return """(* GENERATED by harness/props/c10_translate.py from esutil/wcsutil.py -- do not edit by hand.
   Module-level tables of the working tree that is being checked. *)
From Coq Require Import Reals List String.
Import ListNotations.
Open Scope nat_scope.

(* _scamp_max_order, _scamp_max_ncoeff, _scamp_skip *)
Definition scamp_max_order : nat := %d.
Definition scamp_max_ncoeff : nat := %d.
Definition scamp_skip : list nat := [%s].

(* _scamp_map["pv1_K"] = (i, j)  as  (K, (i, j));  the pvi keys are copies (module-level loop) *)
Definition scamp_map1 : list (nat * (nat * nat)) := %s.
Definition scamp_map2 : list (nat * (nat * nat)) := %s.

(* _allowed_projections and _ap[projection][name, aprefix, bprefix, apprefix, bpprefix] *)
Definition allowed_projections : list string := [%s]%%string.
Definition ap_table : list (string * list string) := [%s]%%string.

(* DEFTOL = %r  (exact value of the binary64 literal) *)
Definition deftol : R := (%s)%%R.
""" % (c["max_order"], c["max_ncoeff"], "; ".join(str(k) for k in c["skip"]), tab(1), tab(2),
       "; ".join(_coq_string(p) for p in c["allowed"]), "; ".join(aps), c["deftol"], cR_exact(c["deftol"]))


def regenerate(impl_dir, coqdir):
    """-> (constants, changed: bool); raises TranslateError"""
    p = os.path.join(impl_dir, "esutil", "wcsutil.py")
    try:
        src = open(p).read()
    except OSError as e:
        raise TranslateError("cannot read %s: %s" % (p, e))
    try:
        c = extract(src)
    except SyntaxError as e:
        raise TranslateError("wcsutil.py does not parse: %s" % e)
    txt = gen_text(c)
    try:
        txt += ("\n(* ---- straight-line arithmetic of the anchored methods, translated from the source (T-formula) ---- *)\n"
                "Open Scope R_scope.\n\n" + formulas(src))
    except SyntaxError as e:
        raise TranslateError("wcsutil.py does not parse: %s" % e)
    dst = os.path.join(coqdir, "theories", "C10", "Gen.v")
    old = open(dst).read() if os.path.exists(dst) else None
    if old == txt:
        return c, False
    tmp = dst + ".tmp.%d" % os.getpid()
    with open(tmp, "w") as f:
        f.write(txt)
    os.replace(tmp, dst)
    return c, True

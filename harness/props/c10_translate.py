"""T-const for C10: read the module-level tables of esutil/wcsutil.py (python ast) and print
coq/theories/C10/Gen.v:

    _scamp_max_order, _scamp_max_ncoeff, _scamp_skip, _scamp_map["pvA_K"] = (i, j),
    _allowed_projections, _ap[projection]["name"], DEFTOL, r2d/d2r (shape only)

Fails closed (TranslateError) when the source no longer has the expected shape; the file is
rewritten only when its text changes (atomic rename).  Only literal module-level statements are
read: the `for key in smkeys:` loop that copies the table to the "pvi" keys is required to be
present in exactly its known form (the inverse keys then map like the forward ones)."""
import ast
import os
import re
from fractions import Fraction


class TranslateError(Exception):
    pass


def _const(node, types):
    if isinstance(node, ast.Constant) and isinstance(node.value, types) and not isinstance(node.value, bool):
        return node.value
    raise TranslateError("not a literal of type %s: %s" % (types, ast.dump(node)))


def _assign_name(tree, name):
    hits = [n for n in tree.body if isinstance(n, ast.Assign) and len(n.targets) == 1
            and isinstance(n.targets[0], ast.Name) and n.targets[0].id == name]
    if len(hits) != 1:
        raise TranslateError("expected exactly one module-level assignment to %s, found %d" % (name, len(hits)))
    return hits[0].value


def extract(src):
    tree = ast.parse(src)
    c = {}
    c["max_order"] = _const(_assign_name(tree, "_scamp_max_order"), int)
    c["max_ncoeff"] = _const(_assign_name(tree, "_scamp_max_ncoeff"), int)
    sk = _assign_name(tree, "_scamp_skip")
    if not isinstance(sk, ast.List):
        raise TranslateError("_scamp_skip is not a list literal")
    c["skip"] = [_const(e, int) for e in sk.elts]
    c["deftol"] = float(_const(_assign_name(tree, "DEFTOL"), (int, float)))
    ap = _assign_name(tree, "_allowed_projections")
    if not isinstance(ap, ast.List):
        raise TranslateError("_allowed_projections is not a list literal")
    c["allowed"] = [_const(e, str) for e in ap.elts]
    # r2d = 180.0 / math.pi ; d2r = math.pi / 180.0
    for nm, shape in (("r2d", "180.0 / math.pi"), ("d2r", "math.pi / 180.0")):
        got = ast.unparse(_assign_name(tree, nm))
        if got != shape:
            raise TranslateError("%s = %s, expected %s" % (nm, got, shape))
    # _scamp_map = {} followed by _scamp_map["pvA_K"] = (i, j)
    init = _assign_name(tree, "_scamp_map")
    if not (isinstance(init, ast.Dict) and not init.keys):
        raise TranslateError("_scamp_map is not initialised with {}")
    table = {}
    dname = None
    ap_names = {}
    ap_alias = {}
    seen_loop = False
    for n in tree.body:
        if isinstance(n, ast.Assign) and len(n.targets) == 1 and isinstance(n.targets[0], ast.Name) \
                and n.targets[0].id == "dname":
            dname = _const(n.value, str)
            continue
        if isinstance(n, ast.Assign) and len(n.targets) == 1 and isinstance(n.targets[0], ast.Subscript):
            t = n.targets[0]
            if isinstance(t.value, ast.Name) and t.value.id == "_scamp_map":
                key = _const(t.slice, str)
                m = re.fullmatch(r"pv([12])_(\d+)", key)
                if not m:
                    raise TranslateError("unexpected _scamp_map key %r" % key)
                if not (isinstance(n.value, ast.Tuple) and len(n.value.elts) == 2):
                    raise TranslateError("_scamp_map[%r] is not a pair" % key)
                ij = tuple(_const(e, int) for e in n.value.elts)
                k = (int(m.group(1)), int(m.group(2)))
                if k in table:
                    raise TranslateError("_scamp_map key %r assigned twice" % key)
                table[k] = ij
                continue
            if isinstance(t.value, ast.Name) and t.value.id == "_ap":
                # _ap[dname] = {}   or   _ap["-TPV"] = _ap["-TAN"]
                if isinstance(t.slice, ast.Name) and t.slice.id == "dname":
                    if not (isinstance(n.value, ast.Dict) and not n.value.keys):
                        raise TranslateError("_ap[dname] not initialised with {}")
                    continue
                key = _const(t.slice, str)
                v = n.value
                if isinstance(v, ast.Subscript) and isinstance(v.value, ast.Name) and v.value.id == "_ap":
                    ap_alias[key] = _const(v.slice, str)
                    continue
                raise TranslateError("unexpected assignment to _ap[%r]" % key)
            if isinstance(t.value, ast.Subscript) and isinstance(t.value.value, ast.Name) and t.value.value.id == "_ap":
                # _ap[dname]["name"] = "scamp"
                if not (isinstance(t.value.slice, ast.Name) and t.value.slice.id == "dname") or dname is None:
                    raise TranslateError("unexpected shape of an _ap[...][...] assignment")
                field = _const(t.slice, str)
                ap_names.setdefault(dname, {})[field] = _const(n.value, str)
                continue
        if isinstance(n, ast.For):
            txt = ast.unparse(n)
            want = "for key in smkeys:\n    newkey = key.replace('pv', 'pvi')\n    _scamp_map[newkey] = _scamp_map[key]"
            if txt != want:
                raise TranslateError("unexpected module-level loop: %s" % txt)
            seen_loop = True
    if not seen_loop:
        raise TranslateError("the loop that copies _scamp_map to the pvi keys is missing")
    if ast.unparse(_assign_name(tree, "smkeys")) != "list(_scamp_map.keys())":
        raise TranslateError("smkeys is not list(_scamp_map.keys())")
    for key, tgt in ap_alias.items():
        if tgt not in ap_names:
            raise TranslateError("_ap[%r] aliases unknown %r" % (key, tgt))
        ap_names[key] = ap_names[tgt]
    c["table"] = table
    c["ap"] = ap_names
    for proj in c["allowed"]:
        if proj not in ap_names or "name" not in ap_names[proj]:
            raise TranslateError("no _ap entry for allowed projection %r" % proj)
    return c


def cR_exact(x):
    fr = Fraction(float(x))
    n, d = fr.numerator, fr.denominator
    s = "%d" % abs(n) if d == 1 else "%d / %d" % (abs(n), d)
    return ("- " + s) if n < 0 else s


def _coq_string(s):
    if not all(32 <= ord(ch) < 127 for ch in s):
        raise TranslateError("non-ASCII string %r" % s)
    return '"' + s.replace('"', '""') + '"'


def gen_text(c):
    def tab(ax):
        items = sorted((k, ij) for (a, k), ij in c["table"].items() if a == ax)
        return "[" + "; ".join("(%d, (%d, %d))" % (k, ij[0], ij[1]) for k, ij in items) + "]"
    fields = ("name", "aprefix", "bprefix", "apprefix", "bpprefix")
    aps = []
    for proj in c["allowed"]:
        d = c["ap"][proj]
        for f in fields:
            if f not in d:
                raise TranslateError("_ap[%r] lacks field %r" % (proj, f))
        aps.append("(%s, [%s])" % (_coq_string(proj), "; ".join(_coq_string(d[f]) for f in fields)))
    return """(* GENERATED by harness/props/c10_translate.py from esutil/wcsutil.py -- do not edit by hand.
   Module-level tables of the working tree that is being checked. *)
From Coq Require Import Reals List String.
Import ListNotations.
Open Scope nat_scope.

(* _scamp_max_order, _scamp_max_ncoeff, _scamp_skip *)
Definition scamp_max_order : nat := %d.
Definition scamp_max_ncoeff : nat := %d.
Definition scamp_skip : list nat := [%s].

(* _scamp_map["pv1_K"] = (i, j)  as  (K, (i, j));  the pvi keys are copies (module-level loop) *)
Definition scamp_map1 : list (nat * (nat * nat)) := %s.
Definition scamp_map2 : list (nat * (nat * nat)) := %s.

(* _allowed_projections and _ap[projection][name, aprefix, bprefix, apprefix, bpprefix] *)
Definition allowed_projections : list string := [%s]%%string.
Definition ap_table : list (string * list string) := [%s]%%string.

(* DEFTOL = %r  (exact value of the binary64 literal) *)
Definition deftol : R := (%s)%%R.
""" % (c["max_order"], c["max_ncoeff"], "; ".join(str(k) for k in c["skip"]), tab(1), tab(2),
       "; ".join(_coq_string(p) for p in c["allowed"]), "; ".join(aps), c["deftol"], cR_exact(c["deftol"]))


def regenerate(impl_dir, coqdir):
    """-> (constants, changed: bool); raises TranslateError"""
    p = os.path.join(impl_dir, "esutil", "wcsutil.py")
    try:
        src = open(p).read()
    except OSError as e:
        raise TranslateError("cannot read %s: %s" % (p, e))
    try:
        c = extract(src)
    except SyntaxError as e:
        raise TranslateError("wcsutil.py does not parse: %s" % e)
    txt = gen_text(c)
    dst = os.path.join(coqdir, "theories", "C10", "Gen.v")
    old = open(dst).read() if os.path.exists(dst) else None
    if old == txt:
        return c, False
    tmp = dst + ".tmp.%d" % os.getpid()
    with open(tmp, "w") as f:
        f.write(txt)
    os.replace(tmp, dst)
    return c, True

"""Fail-closed translator for property C12 (DESIGN.md 4.1):
    esutil/htm/htmc.cc, esutil/htm/htmc.h, esutil/htm/htm.py   ->   coq/theories/C12/Gen.v, GenR.v

Gen.v  (discrete; Z / bool / string):
  * the decisions of Matcher::match and Matcher::init_hmap that the hand model C12/Model.v
    contains: the distance filter `dis <= rad`, the comparator of PAIR_INFO_ORDERING, the emit
    guard `nkeep > 0`, the maxmatch truncation (nested if), the radius selection (`nrad == 1` /
    `nrad > 1` and the two index expressions), every `for` header of the two functions (start
    value, comparison, bound), the fprintf format of a pair row;
  * the size checks that raise ValueError in Matcher.__init__, Matcher.match and HTM.match of
    htm.py (python `ast`), the presence of the `.astype('f8')` normalisation of every coordinate
    argument, the dtype and delimiter with which read_pairs reads a pair file.
GenR.v (real numbers):
  * NPY_PI (checked to be pi to all its digits), R2D, D2R;
  * the whole body of gcirc as a Gallina function over R (straight-line code, `if` around
    assignments, the early return for identical points);
  * the cap handed to the triangle search: MATCH_COVER_PAD_DEGREES and match_cover_cosine (or, on
    a tree without them, the expression `cos( rad*D2R )` of Matcher::match with pad 0).
C12/TieProofs.v and C12/SepProofs.v prove that these definitions are what Model.v contains and that
src_gcirc is the true great-circle separation, so a changed constant, operator, loop bound or formula
changes the statement that is re-proved on the next run.  Anything that does not have the expected
shape raises TranslateError: the run then reports a broken tie.
"""
import ast
import os
import re
from fractions import Fraction


class TranslateError(Exception):
    pass


def _need(cond, what):
    if not cond:
        raise TranslateError("source no longer has the expected shape: " + what)


PI_DIGITS = "3.14159265358979323846264338327950288419716939937510"


# ----------------------------------------------------------------------------------------
# C side: comments, function bodies, a small expression parser
# ----------------------------------------------------------------------------------------

def strip_c_comments(s):
    out, i, n = [], 0, len(s)
    while i < n:
        if s.startswith("//", i):
            j = s.find("\n", i)
            i = n if j < 0 else j
        elif s.startswith("/*", i):
            j = s.find("*/", i + 2)
            _need(j >= 0, "unterminated comment")
            out.append(" ")
            i = j + 2
        elif s[i] == '"':
            j = i + 1
            while j < n and s[j] != '"':
                j += 2 if s[j] == "\\" else 1
            out.append(s[i:j + 1])
            i = j + 1
        else:
            out.append(s[i])
            i += 1
    return "".join(out)


def body_after(src, header_re, what):
    """text between the braces of the first definition whose header matches header_re"""
    ms = list(re.finditer(header_re, src))
    _need(len(ms) == 1, "%s: expected exactly one definition, found %d" % (what, len(ms)))
    i = src.find("{", ms[0].end() - 1)
    _need(i >= 0, what + ": opening brace")
    depth, j = 0, i
    while j < len(src):
        if src[j] == '"':
            j += 1
            while src[j] != '"':
                j += 2 if src[j] == "\\" else 1
        elif src[j] == "{":
            depth += 1
        elif src[j] == "}":
            depth -= 1
            if depth == 0:
                return src[i + 1:j]
        j += 1
    raise TranslateError(what + ": unbalanced braces")


_TOK = re.compile(r"\s*(?:(\d+\.\d*(?:[eE][+-]?\d+)?|\.\d+(?:[eE][+-]?\d+)?|\d+(?:[eE][+-]?\d+)?)(L?)|([A-Za-z_]\w*)|"
                  r"(==|!=|<=|>=|&&|\|\||[-+*/()<>,!]))")


def tokenize(s):
    toks, i = [], 0
    s = s.strip()
    while i < len(s):
        m = _TOK.match(s, i)
        _need(m is not None and m.end() > i, "cannot tokenize %r" % s[i:i + 30])
        if m.group(1) is not None:
            toks.append(("num", m.group(1)))
        elif m.group(3) is not None:
            toks.append(("id", m.group(3)))
        else:
            toks.append(("op", m.group(4)))
        i = m.end()
        while i < len(s) and s[i].isspace():
            i += 1
    return toks


class P:
    """precedence climbing for the C expression subset: || && (== !=) (< > <= >=) (+ -) (* /) unary- call"""
    LEVELS = [["||"], ["&&"], ["==", "!="], ["<", ">", "<=", ">="], ["+", "-"], ["*", "/"]]

    def __init__(self, text):
        self.t = tokenize(text)
        self.i = 0
        self.text = text

    def peek(self):
        return self.t[self.i] if self.i < len(self.t) else (None, None)

    def take(self, kind=None, val=None):
        k, v = self.peek()
        _need(k is not None and (kind is None or k == kind) and (val is None or v == val),
              "expression %r: expected %s %s" % (self.text, kind, val))
        self.i += 1
        return v

    def parse(self):
        e = self.level(0)
        _need(self.i == len(self.t), "expression %r: trailing tokens" % self.text)
        return e

    def level(self, n):
        if n == len(self.LEVELS):
            return self.unary()
        e = self.level(n + 1)
        while self.peek()[0] == "op" and self.peek()[1] in self.LEVELS[n]:
            op = self.take()
            e = ("bin", op, e, self.level(n + 1))
        return e

    def unary(self):
        k, v = self.peek()
        if k == "op" and v == "-":
            self.take()
            return ("neg", self.unary())
        if k == "op" and v == "(":
            self.take()
            e = self.level(0)
            self.take("op", ")")
            return e
        if k == "num":
            self.take()
            return ("num", v)
        if k == "id":
            self.take()
            if self.peek() == ("op", "("):
                self.take()
                args = []
                if self.peek() != ("op", ")"):
                    args.append(self.level(0))
                    while self.peek() == ("op", ","):
                        self.take()
                        args.append(self.level(0))
                self.take("op", ")")
                return ("call", v, args)
            return ("id", v)
        raise TranslateError("expression %r: unexpected token %r" % (self.text, v))


def parse_expr(text):
    return P(text).parse()


def lit(txt):
    """decimal literal -> exact rational, keeping the literal's digits"""
    m = re.fullmatch(r"(\d*)(?:\.(\d*))?(?:[eE]([+-]?\d+))?", txt)
    _need(m is not None and (m.group(1) or m.group(2)), "decimal literal %r" % txt)
    ip, fp, ex = m.group(1) or "", m.group(2) or "", int(m.group(3) or 0)
    fr = Fraction(int((ip + fp) or "0"), 10 ** len(fp)) * Fraction(10) ** ex
    return fr


def cfrac(fr, mode):
    if mode == "Z":
        _need(fr.denominator == 1, "integer literal expected, got %s" % fr)
        return str(fr.numerator)
    return str(fr.numerator) if fr.denominator == 1 else "(%d / %d)" % (fr.numerator, fr.denominator)


R_FUNCS = {"sin": "sin", "cos": "cos", "sqrt": "sqrt", "acos": "acos"}
R_MACROS = {"D2R": "src_D2R", "R2D": "src_R2D", "NPY_PI": "PI"}


def emit(e, mode, env):
    """mode 'R' (values in R, tests through Rltb/Rleb/Reqb) or 'Z' (values in Z); env: C name -> Coq name"""
    k = e[0]
    if k == "num":
        return cfrac(lit(e[1]), mode)
    if k == "id":
        n = e[1]
        if mode == "R" and n in R_MACROS:
            return R_MACROS[n]
        _need(n in env, "unknown identifier %r" % n)
        return env[n]
    if k == "neg":
        return "(- %s)" % emit(e[1], mode, env)
    if k == "call":
        _need(mode == "R", "function call %s in an integer expression" % e[1])
        if e[1] == "atan2":
            _need(len(e[2]) == 2, "atan2 arity")
            return "atan2u %s %s" % tuple(_par(emit(a, mode, env)) for a in e[2])
        _need(e[1] in R_FUNCS and len(e[2]) == 1, "call of %s" % e[1])
        return "%s %s" % (R_FUNCS[e[1]], _par(emit(e[2][0], mode, env)))
    if k == "bin":
        op, a, b = e[1], emit(e[2], mode, env), emit(e[3], mode, env)
        if op in "+-*/":
            _need(not (mode == "Z" and op == "/"), "integer division")
            return "(%s %s %s)" % (_par(a), op, _par(b))
        if op in ("&&", "||"):
            return "(%s %s %s)%%bool" % (a, op, b)
        if mode == "Z":
            return {"<": "(%s <? %s)%%Z" % (a, b), ">": "(%s <? %s)%%Z" % (b, a),
                    "<=": "(%s <=? %s)%%Z" % (a, b), ">=": "(%s <=? %s)%%Z" % (b, a),
                    "==": "(%s =? %s)%%Z" % (a, b), "!=": "(negb (%s =? %s)%%Z)" % (a, b)}[op]
        return {"<": "(Rltb %s %s)" % (_par(a), _par(b)), ">": "(Rltb %s %s)" % (_par(b), _par(a)),
                "<=": "(Rleb %s %s)" % (_par(a), _par(b)), ">=": "(Rleb %s %s)" % (_par(b), _par(a)),
                "==": "(Reqb %s %s)" % (_par(a), _par(b)), "!=": "(negb (Reqb %s %s))" % (_par(a), _par(b))}[op]
    raise TranslateError("expression node %r" % (e,))


def _par(s):
    return s if re.fullmatch(r"[\w.]+|\(.*\)", s) and _balanced_outer(s) else "(" + s + ")"


def _balanced_outer(s):
    if not s.startswith("("):
        return True
    d = 0
    for i, ch in enumerate(s):
        d += ch == "("
        d -= ch == ")"
        if d == 0 and i < len(s) - 1:
            return False
    return True


# ---- statements of a straight-line double-valued function -------------------------------

def split_statements(body):
    """top-level statements of a block: 'if (c) {..}' / 'if (c) stmt;' / 'x = e;' / 'return e;' / declarations"""
    out, i, n = [], 0, len(body)
    while i < n:
        while i < n and body[i].isspace():
            i += 1
        if i >= n:
            break
        if re.match(r"if\b", body[i:]):
            j = body.index("(", i)
            d, k = 0, j
            while True:
                d += body[k] == "("
                d -= body[k] == ")"
                if d == 0:
                    break
                k += 1
            cond = body[j + 1:k]
            k += 1
            while body[k].isspace():
                k += 1
            if body[k] == "{":
                d, m = 0, k
                while True:
                    d += body[m] == "{"
                    d -= body[m] == "}"
                    if d == 0:
                        break
                    m += 1
                inner = body[k + 1:m]
                i = m + 1
            else:
                m = body.index(";", k)
                inner = body[k:m + 1]
                i = m + 1
            rest = body[i:].lstrip()
            _need(not rest.startswith("else"), "else branch")
            out.append(("if", cond.strip(), split_statements(inner)))
        else:
            j = body.find(";", i)
            _need(j >= 0, "statement without ';': %r" % body[i:i + 40])
            st = " ".join(body[i:j].split())
            i = j + 1
            if not st:
                continue
            m = re.fullmatch(r"return\s*\(?(.*?)\)?", st)
            if st.startswith("return"):
                out.append(("return", st[len("return"):].strip()))
            elif re.fullmatch(r"(double|long double)\s+[\w\s,]+", st):
                out.append(("decl", [x.strip() for x in st.split(None, 1)[1].split(",")]))
            else:
                m = re.fullmatch(r"(?:(double)\s+)?(\w+)\s*(=|\*=|\+=|-=|/=)\s*(.+)", st)
                _need(m is not None, "statement %r" % st)
                out.append(("assign", m.group(2), m.group(3), m.group(4), m.group(1) is not None))
    return out


def emit_function(stmts, params, boolparams, indent="  ", macros=None):
    """straight-line translation: every assignment is a `let`; `if (c) {x = e;}` becomes
    `let x := if c then e else x in`; `if (c) {return e;}` becomes `if c then e else (rest)`"""
    env = {p: p for p in params}
    env.update(macros or {})
    known = set(params)
    lines = []

    def cond(text):
        if text.strip() in boolparams:
            return text.strip()
        return emit(parse_expr(text), "R", env)

    def rhs(name, op, text):
        e = emit(parse_expr(text), "R", env)
        if op == "=":
            return e
        _need(name in known, "compound assignment to an unset variable %s" % name)
        return "(%s %s %s)" % (name, op[0], _par(e))

    closers = 0
    returned = False
    for st in stmts:
        _need(not returned, "statement after return")
        if st[0] == "decl":
            continue
        if st[0] == "assign":
            _, name, op, text, _decl = st
            _need(name not in R_MACROS and name not in boolparams, "assignment to %s" % name)
            lines.append("%slet %s := %s in" % (indent, name, rhs(name, op, text)))
            env[name] = name
            known.add(name)
        elif st[0] == "if":
            _, c, inner = st
            inner = [s for s in inner if s[0] != "decl"]
            _need(len(inner) >= 1, "empty if")
            if inner[0][0] == "return":
                _need(len(inner) == 1, "return followed by statements")
                lines.append("%sif %s then %s else" % (indent, cond(c), emit(parse_expr(inner[0][1]), "R", env)))
            else:
                cc = cond(c)
                for s in inner:
                    _need(s[0] == "assign", "only assignments inside if")
                    _, name, op, text, _decl = s
                    _need(name in known, "conditional assignment to an unset variable %s" % name)
                    lines.append("%slet %s := if %s then %s else %s in" % (indent, name, cc, rhs(name, op, text), name))
        elif st[0] == "return":
            lines.append("%s%s." % (indent, emit(parse_expr(st[1]), "R", env)))
            returned = True
    _need(returned, "function does not end in return")
    return "\n".join(lines)


# ----------------------------------------------------------------------------------------
# extraction from htmc.cc / htmc.h
# ----------------------------------------------------------------------------------------

def _define(src, name):
    ms = re.findall(r"^[ \t]*#define[ \t]+%s[ \t]+(.+?)[ \t]*$" % re.escape(name), src, re.M)
    return ms


FOR_RE = re.compile(r"for\s*\(\s*(\w+)\s+(\w+)\s*=\s*(\w+)\s*;\s*(\w+)\s*(<=|<|>=|>|!=)\s*([\w>.\-]+?(?:\(\))?)\s*;\s*(\w+)\s*\+\+\s*\)")
EXPECTED_LOOPS = [
    # (function, loop variable, bound as written, Coq name)
    ("init_hmap", "i", "this->npoints", "hmap_points"),
    ("match", "i_input", "ninput", "input_points"),
    ("match", "i", "flist.length()", "full_nodes"),
    ("match", "i", "plist.length()", "partial_nodes"),
    ("match", "j", "nfound", "idlist"),
    ("match", "ileaf", "nleaf", "leaf_members"),
    ("match", "ci", "nkeep", "emit_rows"),
    ("match", "i", "ntotal", "copy_out"),
]


def extract_c(cc, hh):
    c = {}
    cc = strip_c_comments(cc)
    hh = strip_c_comments(hh)
    # --- constants
    pi = _define(cc, "NPY_PI")
    _need(len(pi) == 1, "#define NPY_PI")
    m = re.fullmatch(r"(\d\.\d+)L?", pi[0])
    _need(m is not None and len(m.group(1)) >= 17 and PI_DIGITS.startswith(m.group(1)[:-1])
          and abs(int(m.group(1)[-1]) - int(PI_DIGITS[len(m.group(1)) - 1])) <= 1
          and len(m.group(1)) <= len(PI_DIGITS) - 2,
          "NPY_PI is not pi to its digits: %r" % pi[0])
    c["pi_text"] = pi[0]
    for name in ("R2D", "D2R"):
        d = _define(cc, name)
        _need(len(d) == 1, "#define " + name)
        c[name + "_text"] = d[0]
        c[name] = emit(parse_expr(d[0]), "R", {})
    # --- gcirc
    body = body_after(cc, r"\bdouble\s+gcirc\s*\(\s*double\s+ra1\s*,\s*double\s+dec1\s*,\s*double\s+ra2\s*,\s*double\s+dec2\s*,"
                          r"\s*bool\s+degrees\s*\)\s*\{", "gcirc")
    c["gcirc"] = emit_function(split_statements(body), ["ra1", "dec1", "ra2", "dec2"], ["degrees"])
    # --- cap handed to the triangle search
    mbody = body_after(cc, r"\bPyObject\s*\*\s*Matcher::match\s*\([^)]*\)[^{;]*\{", "Matcher::match")
    pad = _define(cc, "MATCH_COVER_PAD_DEGREES")
    if pad:
        _need(len(pad) == 1, "#define MATCH_COVER_PAD_DEGREES")
        c["pad_text"] = pad[0]
        c["pad"] = lit(pad[0])
        fb = body_after(cc, r"\bstatic\s+double\s+match_cover_cosine\s*\(\s*double\s+radius\s*\)\s*\{", "match_cover_cosine")
        stm = split_statements(fb)
        c["cover_cosine"] = emit_function(stm, ["radius"], [], indent="  ", macros={"MATCH_COVER_PAD_DEGREES": "src_cover_pad"})
        uses = re.findall(r"[;{}]\s*d\s*=\s*([^;]+);", mbody)
        _need(uses == ["match_cover_cosine(rad)"] * 2, "Matcher::match: d = match_cover_cosine(rad) twice, found %r" % uses)
    else:
        c["pad_text"] = None
        c["pad"] = Fraction(0)
        uses = [" ".join(u.split()) for u in re.findall(r"[;{}]\s*d\s*=\s*([^;]+);", mbody)]
        _need(len(uses) == 2 and uses[0] == uses[1], "Matcher::match: the two assignments of d, found %r" % uses)
        c["cover_cosine"] = "  %s." % emit(parse_expr(uses[0]), "R", {"rad": "radius"})
    _need(len(re.findall(r"domain\.setRaDecD\(\s*ra\s*,\s*dec\s*,\s*d\s*\)", mbody)) == 1, "domain.setRaDecD(ra,dec,d)")
    _need(len(re.findall(r"domain\.intersect\(\s*&index\s*,\s*plist\s*,\s*flist\s*\)", mbody)) == 1, "domain.intersect(&index,plist,flist)")
    # --- discrete decisions of Matcher::match
    envz = {n: n for n in ("dis", "rad", "nkeep", "maxmatch", "nrad", "i_input")}
    keep = re.findall(r"if\s*\(\s*(dis\s*[<>=!]+\s*rad)\s*\)\s*\{\s*PAIR_INFO\s+pi\s*;", mbody)
    _need(len(keep) == 1, "the distance filter `if (dis <= rad) { PAIR_INFO pi;`")
    c["keep_text"] = keep[0]
    c["keep"] = emit(parse_expr(keep[0]), "Z", envz)
    dcall = re.findall(r"double\s+dis\s*=\s*gcirc\s*\(([^;()]*)\)\s*;", mbody)
    _need(len(dcall) == 1, "double dis = gcirc(...)")
    dargs = [x.strip() for x in dcall[0].split(",")]
    _need(len(dargs) == 5 and all(re.fullmatch(r"\w+", x) for x in dargs) and dargs[4] in ("true", "false"),
          "arguments of gcirc: %r" % dargs)
    c["dis_args"], c["dis_degrees"] = dargs[:4], dargs[4]
    # the coordinates handed to gcirc are the input point and the stored point
    for name, arr, idx in (("ra", "ra_array", "i_input"), ("dec", "dec_array", "i_input"), ("tra", "this->ra", "i_this"), ("tdec", "this->dec", "i_this")):
        _need(len(re.findall(r"double\s+%s\s*=\s*\*\s*\(double\s*\*\)\s*PyArray_GETPTR1\(\s*\(PyArrayObject\s*\*\)\s*%s\s*,\s*%s\s*\)" % (
            name, re.escape(arr), idx), mbody)) == 1, "double %s = element %s of %s" % (name, idx, arr))
    m = re.search(r"PAIR_INFO\s+pi\s*;((?:\s*pi\.\w+\s*=\s*\w+\s*;)+)\s*pair_info\.push_back\(pi\)", mbody)
    _need(m is not None, "PAIR_INFO pi; pi.<field> = <name>; ... pair_info.push_back(pi)")
    asg = re.findall(r"pi\.(\w+)\s*=\s*(\w+)\s*;", m.group(1))
    _need(sorted(f for f, _ in asg) == ["d12", "i1", "i2"], "fields assigned to the PAIR_INFO: %r" % asg)
    rowenv = {"i_input": "i_input", "i_this": "i_this", "dis": "dis"}
    _need(all(v in rowenv for _, v in asg), "values assigned to the PAIR_INFO: %r" % asg)
    c["row"] = dict(asg)
    m = re.search(r"npy_intp\s+nkeep\s*=\s*pair_info\.size\(\)\s*;\s*if\s*\(\s*(nkeep\s*[<>=!]+\s*\w+)\s*\)\s*\{\s*"
                  r"std::sort\(\s*pair_info\.begin\(\)\s*,\s*pair_info\.end\(\)\s*,\s*PAIR_INFO_ORDERING\(\)\s*\)\s*;", mbody)
    _need(m is not None, "nkeep = pair_info.size(); if (nkeep > 0) { std::sort(pair_info.begin(), pair_info.end(), PAIR_INFO_ORDERING());")
    c["guard_text"] = m.group(1)
    c["guard"] = emit(parse_expr(m.group(1)), "Z", envz)
    rest = mbody[m.end():]
    j = rest.index("for")
    trunc = split_statements(rest[:j])
    _need(len(trunc) == 1 and trunc[0][0] == "if", "the maxmatch truncation between std::sort and the emit loop")

    def zif(st, var):
        """nested ifs around assignments to one variable -> Gallina expression for its new value"""
        _, cnd, inner = st
        _need(len(inner) == 1, "one statement per if in the truncation")
        s = inner[0]
        ce = emit(parse_expr(cnd), "Z", envz)
        if s[0] == "if":
            return "(if %s then %s else %s)" % (ce, zif(s, var), var)
        _need(s[0] == "assign" and s[1] == var and s[2] == "=", "assignment to %s in the truncation" % var)
        return "(if %s then %s else %s)" % (ce, emit(parse_expr(s[3]), "Z", envz), var)
    c["trunc"] = zif(trunc[0], "nkeep")
    # radius selection
    rs = re.findall(r"if\s*\(\s*(nrad\s*[<>=!]+\s*\d+)\s*\)\s*\{\s*rad\s*=\s*\*\s*\(double\s*\*\)\s*PyArray_GETPTR1\(\s*\(PyArrayObject\s*\*\)\s*"
                    r"radius_array\s*,\s*(\w+)\s*\)\s*;", mbody)
    _need(len(rs) == 2, "the two radius selections `if (nrad ...) { rad = *(double *) PyArray_GETPTR1(... radius_array, k);`")
    c["rad_text"] = rs
    c["rad_once"], c["rad_once_index"] = emit(parse_expr(rs[0][0]), "Z", envz), emit(parse_expr(rs[0][1]), "Z", envz)
    c["rad_each"], c["rad_each_index"] = emit(parse_expr(rs[1][0]), "Z", envz), emit(parse_expr(rs[1][1]), "Z", envz)
    _need(mbody.index(rs[0][0]) < mbody.index("for") < mbody.index(rs[1][0]), "position of the radius selections")
    # fprintf format and its arguments
    f = re.findall(r'fprintf\(\s*fptr\s*,\s*"((?:[^"\\]|\\.)*)"\s*,\s*pair_info\[ci\]\.(\w+)\s*,\s*pair_info\[ci\]\.(\w+)\s*,\s*pair_info\[ci\]\.(\w+)\s*\)', mbody)
    _need(len(f) == 1, "fprintf(fptr, FORMAT, pair_info[ci].<f>, pair_info[ci].<f>, pair_info[ci].<f>)")
    c["format"] = f[0][0]
    c["file_columns"] = list(f[0][1:])
    mc = re.findall(r"(\w+)\.push_back\(pair_info\[ci\]\.(\w+)\)\s*;", mbody)
    _need(len(mc) == 3, "three <vector>.push_back(pair_info[ci].<field>)")
    c["memory_columns"] = mc
    outs = re.findall(r"\*\s*(\w+)ptr\s*=\s*(\w+)\[i\]\s*;", mbody)
    _need(sorted(outs) == [("d12", "d12"), ("m1", "m1"), ("m2", "m2")], "copy-out *m1ptr = m1[i]; *m2ptr = m2[i]; *d12ptr = d12[i]: %r" % outs)
    tup = re.findall(r"PyTuple_SetItem\(\s*output_tuple\s*,\s*(\d)\s*,\s*(\w+)out\s*\)", mbody)
    _need(tup == [("0", "m1"), ("1", "m2"), ("2", "d12")], "output tuple (m1, m2, d12): %r" % tup)
    # idlist: which list is copied first
    fills = re.findall(r"idlist\[idcount\]\s*=\s*(\w+)\(i\)\s*;", mbody)
    _need(sorted(fills) == ["flist", "plist"], "idlist filled from flist and plist: %r" % fills)
    c["idlist_order"] = fills
    # --- loops
    hbody = body_after(cc, r"\bvoid\s+Matcher::init_hmap\s*\(\s*void\s*\)\s*\{", "Matcher::init_hmap")
    loops = []
    for fn, b in (("init_hmap", hbody), ("match", mbody)):
        nfor = len(re.findall(r"\bfor\b", b))
        ms = list(FOR_RE.finditer(b))
        _need(len(ms) == nfor, "%s: a for header of unexpected form" % fn)
        for m in ms:
            _ty, v, init, v2, op, bound, v3 = m.groups()
            _need(v == v2 == v3, "%s: loop variable of %r" % (fn, m.group(0)))
            loops.append((fn, v, init, op, bound))
    _need([(l[0], l[1], l[4]) for l in loops] == [(e[0], e[1], e[2]) for e in EXPECTED_LOOPS],
          "the loops of init_hmap/match: %r" % loops)
    c["loops"] = []
    for (fn, v, init, op, bound), exp in zip(loops, EXPECTED_LOOPS):
        start = emit(parse_expr(init), "Z", {})
        cnd = emit(parse_expr("v %s b" % op), "Z", {"v": "v", "b": "b"})
        c["loops"].append((exp[3], "%s: for (%s=%s; %s%s%s; %s++)" % (fn, v, init, v, op, bound, v), start, cnd))
    # init_hmap: key and value
    _need(re.search(r"htmid\s*=\s*htm_interface\.lookupID\(\s*ra\s*,\s*dec\s*\)\s*;\s*iter\s*=\s*hmap\.find\(htmid\)\s*;\s*if\s*\(\s*iter\s*==\s*hmap\.end\(\)\s*\)\s*\{"
                    r"\s*std::vector<int64_t>\s+v\s*;\s*v\.push_back\(i\)\s*;\s*hmap\[htmid\]\s*=\s*v\s*;\s*\}\s*else\s*\{\s*iter->second\.push_back\(i\)\s*;\s*\}", hbody) is not None,
          "init_hmap: find / insert {i} / push_back(i)")
    # --- comparator
    ob = body_after(hh, r"\bstruct\s+PAIR_INFO_ORDERING\s*\{", "PAIR_INFO_ORDERING")
    m = re.search(r"bool\s+operator\(\)\s*\(\s*PAIR_INFO\s+const\s*&\s*pi1\s*,\s*PAIR_INFO\s+const\s*&\s*pi2\s*\)\s*\{\s*return\s+([^;]+);\s*\}", ob)
    _need(m is not None, "PAIR_INFO_ORDERING::operator()")
    cmp_ = " ".join(m.group(1).split())
    m2 = re.fullmatch(r"pi1\.d12\s*([<>=!]+)\s*pi2\.d12", cmp_)
    _need(m2 is not None, "comparator over d12: %r" % cmp_)
    c["before_text"] = cmp_
    c["before"] = emit(parse_expr("d1 %s d2" % m2.group(1)), "Z", {"d1": "d1", "d2": "d2"})
    return c


# ----------------------------------------------------------------------------------------
# python side (htm.py)
# ----------------------------------------------------------------------------------------

def _size_name(n):
    if isinstance(n, ast.Attribute) and n.attr == "size" and isinstance(n.value, ast.Name):
        return n.value.id + "_size"
    return None


def py_test(n, params):
    if isinstance(n, ast.BoolOp):
        op = "&&" if isinstance(n.op, ast.And) else "||"
        parts = [py_test(v, params) for v in n.values]
        out = parts[0]
        for p_ in parts[1:]:
            out = "(%s %s %s)%%bool" % (out, op, p_)
        return out
    _need(isinstance(n, ast.Compare) and len(n.ops) == 1, "size test of unexpected form")

    def val(x):
        s = _size_name(x)
        if s is not None:
            _need(s in params, "size of an unexpected array: %s" % s)
            return s
        _need(isinstance(x, ast.Constant) and isinstance(x.value, int) and not isinstance(x.value, bool), "operand of a size test")
        return str(x.value)
    a, b = val(n.left), val(n.comparators[0])
    op = type(n.ops[0])
    tbl = {ast.NotEq: "(negb (%s =? %s)%%Z)", ast.Eq: "(%s =? %s)%%Z", ast.Lt: "(%s <? %s)%%Z", ast.LtE: "(%s <=? %s)%%Z"}
    if op in (ast.Gt, ast.GtE):
        a, b = b, a
        op = {ast.Gt: ast.Lt, ast.GtE: ast.LtE}[op]
    _need(op in tbl, "comparison operator in a size test")
    return tbl[op] % (a, b)


ERRCLASS = {"ValueError": "EValue", "IndexError": "EIndex", "RuntimeError": "ERuntime", "TypeError": "EType", "KeyError": "EKey"}


def value_error_tests(fn, params):
    """tests of the top-level `if T: raise E(...)` statements of a function, in order, or-ed, and the
    class E they raise (one class per function), translated to the model's error enum"""
    tests, classes = [], set()
    for st in fn.body:
        if isinstance(st, ast.If) and len(st.body) >= 1 and isinstance(st.body[-1], ast.Raise):
            r = st.body[-1].exc
            name = r.func.id if isinstance(r, ast.Call) and isinstance(r.func, ast.Name) else None
            _need(name in ERRCLASS, "raise of %s in %s" % (name, fn.name))
            _need(not st.orelse and len(st.body) <= 2, "shape of a size check in %s" % fn.name)
            tests.append(py_test(st.test, params))
            classes.add(ERRCLASS[name])
    _need(tests, "no size check found in %s" % fn.name)
    _need(len(classes) == 1, "size checks of %s raise different classes: %s" % (fn.name, sorted(classes)))
    out = tests[0]
    for t in tests[1:]:
        out = "(%s || %s)%%bool" % (out, t)
    return out, classes.pop()


def defaults_of(fn):
    """keyword name -> default value node of a function definition"""
    a = fn.args
    names = [x.arg for x in a.args]
    d = dict(zip(names[len(names) - len(a.defaults):], a.defaults))
    for k, v in zip(a.kwonlyargs, a.kw_defaults):
        if v is not None:
            d[k.arg] = v
    return d


def default_int(fn, name):
    d = defaults_of(fn)
    _need(name in d and isinstance(d[name], (ast.Constant, ast.UnaryOp)), "%s: default of %s" % (fn.name, name))
    try:
        v = ast.literal_eval(d[name])
    except Exception:
        raise TranslateError("%s: default of %s is not a literal" % (fn.name, name))
    _need(isinstance(v, int) and not isinstance(v, bool), "%s: default of %s is not an integer" % (fn.name, name))
    return v


def default_is_none(fn, name):
    d = defaults_of(fn)
    _need(name in d, "%s: default of %s" % (fn.name, name))
    return isinstance(d[name], ast.Constant) and d[name].value is None


def call_shape(call):
    """(positional argument names, [(keyword, value name)]) of a call whose arguments are plain names"""
    pos, kws = [], []
    for x in call.args:
        _need(isinstance(x, ast.Name), "call argument is not a plain name")
        pos.append(x.id)
    for k in call.keywords:
        _need(k.arg is not None and isinstance(k.value, ast.Name), "keyword argument is not a plain name")
        kws.append((k.arg, k.value.id))
    return pos, kws


def normalised_args(fn, names):
    """every `x = np.atleast_1d(x).astype('f8')` (optionally `.ravel()`) of the function"""
    got = []
    for st in fn.body:
        if isinstance(st, ast.Assign) and len(st.targets) == 1 and isinstance(st.targets[0], ast.Name):
            v = st.value
            if (isinstance(v, ast.Call) and isinstance(v.func, ast.Attribute) and v.func.attr == "ravel" and not v.args
                    and not v.keywords):
                v = v.func.value      # np.atleast_1d(x).astype('f8').ravel(): flattened for the C code
            if (isinstance(v, ast.Call) and isinstance(v.func, ast.Attribute) and v.func.attr == "astype"
                    and len(v.args) == 1 and isinstance(v.args[0], ast.Constant) and v.args[0].value == "f8"
                    and isinstance(v.func.value, ast.Call) and isinstance(v.func.value.func, ast.Attribute)
                    and v.func.value.func.attr == "atleast_1d" and len(v.func.value.args) == 1
                    and isinstance(v.func.value.args[0], ast.Name) and v.func.value.args[0].id == st.targets[0].id):
                got.append(st.targets[0].id)
    _need(got == names, "%s: arguments normalised with np.atleast_1d(x).astype('f8'): %r, expected %r" % (fn.name, got, names))


def extract_py(text):
    try:
        tree = ast.parse(text)
    except SyntaxError as e:
        raise TranslateError("htm.py does not parse: %s" % e)
    p = {}
    classes = {n.name: n for n in tree.body if isinstance(n, ast.ClassDef)}
    funcs = {n.name: n for n in tree.body if isinstance(n, ast.FunctionDef)}
    _need("HTM" in classes and "Matcher" in classes and "read_pairs" in funcs, "classes HTM, Matcher and function read_pairs")

    def method(cls, name):
        ms = [n for n in classes[cls].body if isinstance(n, ast.FunctionDef) and n.name == name]
        _need(len(ms) == 1, "%s.%s" % (cls, name))
        return ms[0]
    mi, mm, hm = method("Matcher", "__init__"), method("Matcher", "match"), method("HTM", "match")
    normalised_args(mi, ["ra", "dec"])
    normalised_args(mm, ["ra", "dec", "radius"])
    normalised_args(hm, ["ra1", "dec1", "ra2", "dec2", "radius"])
    p["init_rejects"], p["init_error"] = value_error_tests(mi, ["ra_size", "dec_size"])
    p["match_rejects"], p["match_error"] = value_error_tests(mm, ["ra_size", "dec_size", "radius_size"])
    p["htm_rejects"], p["htm_error"] = value_error_tests(hm, ["ra1_size", "dec1_size", "ra2_size", "dec2_size", "radius_size"])
    # defaults of the optional arguments
    p["match_default_maxmatch"] = default_int(mm, "maxmatch")
    p["htm_default_maxmatch"] = default_int(hm, "maxmatch")
    p["match_default_file_none"] = default_is_none(mm, "file")
    p["htm_default_file_none"] = default_is_none(hm, "file")
    # the delegations, argument by argument
    calls = [n for n in ast.walk(hm) if isinstance(n, ast.Call)]
    ctor = [n for n in calls if isinstance(n.func, ast.Name) and n.func.id == "Matcher"]
    mcall = [n for n in calls if isinstance(n.func, ast.Attribute) and n.func.attr == "match"
             and isinstance(n.func.value, ast.Name) and n.func.value.id == "matcher"]
    _need(len(ctor) == 1 and len(mcall) == 1, "HTM.match: one Matcher(...) and one matcher.match(...)")
    p["htm_builds"] = call_shape(ctor[0])
    p["htm_calls"] = call_shape(mcall[0])
    sup = [n for n in ast.walk(mm) if isinstance(n, ast.Call) and isinstance(n.func, ast.Attribute) and n.func.attr == "match"]
    _need(len(sup) == 1, "Matcher.match: one super().match(...)")
    p["matcher_calls"] = call_shape(sup[0])
    # HTM.match delegates to Matcher(depth, ra2, dec2).match(ra1, dec1, radius, maxmatch=maxmatch, file=filename)
    seg = ast.get_source_segment(text, hm) or ""
    _need(re.search(r"matcher\s*=\s*Matcher\(\s*depth\s*,\s*ra2\s*,\s*dec2\s*\)", seg) is not None, "HTM.match: Matcher(depth, ra2, dec2)")
    _need(re.search(r"return\s+matcher\.match\(\s*ra1\s*,\s*dec1\s*,\s*radius\s*,\s*maxmatch\s*=\s*maxmatch\s*,\s*file\s*=\s*filename\s*,?\s*\)", seg) is not None,
          "HTM.match: matcher.match(ra1, dec1, radius, maxmatch=maxmatch, file=filename)")
    seg = ast.get_source_segment(text, mm) or ""
    _need(re.search(r"return\s+super\(Matcher,\s*self\)\.match\(\s*ra\s*,\s*dec\s*,\s*radius\s*,\s*maxmatch\s*,\s*filename\s*\)", seg) is not None,
          "Matcher.match: super().match(ra, dec, radius, maxmatch, filename)")
    # read_pairs: dtype and delimiter
    rp = funcs["read_pairs"]
    dt = [st for st in rp.body if isinstance(st, ast.Assign) and isinstance(st.targets[0], ast.Name) and st.targets[0].id == "dtype"]
    _need(len(dt) == 1, "read_pairs: dtype = [...]")
    try:
        p["dtype"] = [tuple(x) for x in ast.literal_eval(dt[0].value)]
    except Exception:
        raise TranslateError("read_pairs: dtype is not a literal")
    _need(all(len(x) == 2 and all(isinstance(y, str) for y in x) for x in p["dtype"]), "read_pairs: dtype entries")
    # the shortcut for the empty file of a match without pairs: if os.path.getsize(filename) OP N: data = np.zeros(0, dtype=dtype)
    p["shortcut"], p["shortcut_text"] = "false", None
    for st in rp.body:
        if (isinstance(st, ast.If) and isinstance(st.test, ast.Compare) and len(st.test.ops) == 1
                and (ast.get_source_segment(text, st.test.left) or "").replace(" ", "") == "os.path.getsize(filename)"):
            _need(p["shortcut_text"] is None, "read_pairs: one test of the file size")
            cmpn = ast.Compare(left=ast.Attribute(value=ast.Name(id="file"), attr="size"), ops=st.test.ops, comparators=st.test.comparators)
            p["shortcut"] = py_test(cmpn, ["file_size"])
            p["shortcut_text"] = ast.get_source_segment(text, st.test)
            body = " ".join((ast.get_source_segment(text, st.body[-1]) or "").split())
            _need(len(st.body) == 1 and body == "data = np.zeros(0, dtype=dtype)", "read_pairs: the empty-file branch assigns np.zeros(0, dtype=dtype)")
            _need(len(st.orelse) == 1 and isinstance(st.orelse[0], ast.With), "read_pairs: else branch reads with Recfile")
    hr = method("HTM", "read")
    seg = " ".join((ast.get_source_segment(text, hr.body[-1]) or "").split())
    _need(seg == "return read_pairs(filename, verbose=verbose)", "HTM.read returns read_pairs(filename, verbose=verbose)")
    seg = ast.get_source_segment(text, rp) or ""
    m = re.search(r"Recfile\(\s*filename\s*,\s*[\"']r[\"']\s*,\s*dtype\s*=\s*dtype\s*,\s*delim\s*=\s*([\"'])(.*?)\1\s*\)", seg)
    _need(m is not None, "read_pairs: Recfile(filename, 'r', dtype=dtype, delim=...)")
    p["delim"] = m.group(2)
    return p


# ----------------------------------------------------------------------------------------
# Coq text
# ----------------------------------------------------------------------------------------

def cstring(s):
    """C/python string literal body (escapes \\n \\t \\\\ only) -> Coq term of type string"""
    parts, cur, i = [], "", 0
    while i < len(s):
        ch = s[i]
        if ch == "\\":
            _need(i + 1 < len(s) and s[i + 1] in "nt\\", "escape in string %r" % s)
            if cur:
                parts.append('"%s"' % cur)
                cur = ""
            parts.append({"n": 'String (Ascii.ascii_of_nat 10) EmptyString', "t": 'String (Ascii.ascii_of_nat 9) EmptyString',
                          "\\": '"\\"'}[s[i + 1]])
            i += 2
            continue
        _need(32 <= ord(ch) < 127 and ch != '"', "character %r in string" % ch)
        cur += ch
        i += 1
    if cur:
        parts.append('"%s"' % cur)
    if not parts:
        return '""'
    return "(" + " ++ ".join("(%s)" % p_ if " " in p_ and not p_.startswith('"') else p_ for p_ in parts) + ")"


HDR = ("(* GENERATED by harness/props/c12_translate.py from esutil/htm/htmc.cc, esutil/htm/htmc.h and\n"
       "   esutil/htm/htm.py of the tree under check -- do not edit.  A changed constant, operator, loop\n"
       "   bound or formula in the source changes this file and thereby the statements re-proved in\n"
       "   %s. *)\n")


def gen_text(c, p):
    def slist(xs):
        return "[" + "; ".join(cstring(x) for x in xs) + "]"

    def plist(xs):
        return "[" + "; ".join("(%s, %s)" % (cstring(a), cstring(b)) for a, b in xs) + "]"
    L = [HDR % "C12/TieProofs.v",
         "From Coq Require Import ZArith Bool String List.\nFrom EsVerif.Common Require Import Base.\nImport ListNotations.\nOpen Scope Z_scope.\nOpen Scope string_scope.\n",
         "(* ---- htmc.cc, Matcher::match *)",
         "(* if (%s) { PAIR_INFO pi; ... pair_info.push_back(pi); } *)" % c["keep_text"],
         "Definition src_keep (dis rad : Z) : bool := %s." % c["keep"],
         "(* npy_intp nkeep = pair_info.size(); if (%s) { std::sort(...); ... } *)" % c["guard_text"],
         "Definition src_emit_guard (nkeep : Z) : bool := %s." % c["guard"],
         "(* the statements between std::sort and the emit loop *)",
         "Definition src_truncate (nkeep maxmatch : Z) : Z := %s." % c["trunc"],
         "(* if (%s) { rad = radius_array[%s] }  before the loop;  if (%s) { rad = radius_array[%s] }  inside it *)" % (
             c["rad_text"][0][0], c["rad_text"][0][1], c["rad_text"][1][0], c["rad_text"][1][1]),
         "Definition src_rad_once (nrad : Z) : bool := %s." % c["rad_once"],
         "Definition src_rad_once_index : Z := %s." % c["rad_once_index"],
         "Definition src_rad_each (nrad : Z) : bool := %s." % c["rad_each"],
         "Definition src_rad_each_index (i_input : Z) : Z := %s." % c["rad_each_index"],
         '(* fprintf(fptr, "%s", pair_info[ci].i1, pair_info[ci].i2, pair_info[ci].d12) *)' % c["format"],
         "Definition src_pair_format : string := %s." % cstring(c["format"]),
         "(* every for header of Matcher::init_hmap and Matcher::match: (name, start value, test on (v, bound)) *)"]
    for name, text, start, cnd in c["loops"]:
        L.append("(* %s *)" % text)
        L.append("Definition src_loop_%s_start : Z := %s." % (name, start))
        L.append("Definition src_loop_%s_test (v b : Z) : bool := %s." % (name, cnd))
    L.append("Definition src_loops : list (Z * (Z -> Z -> bool)) :=\n  [%s]." % ";\n   ".join(
        "(src_loop_%s_start, src_loop_%s_test)" % (n, n) for n, _, _, _ in c["loops"]))
    L += ["(* double dis = gcirc(%s, %s): the arguments and the degrees flag *)" % (", ".join(c["dis_args"]), c["dis_degrees"]),
          "Definition src_dis_call : list string * bool := (%s, %s)." % (slist(c["dis_args"]), c["dis_degrees"]),
          "(* PAIR_INFO pi; %s pair_info.push_back(pi): one candidate row *)" % " ".join("pi.%s = %s;" % (f_, v) for f_, v in sorted(c["row"].items())),
          "Definition src_row (i_input i_this : nat) (dis : Z) : nat * nat * Z := (%s, %s, %s)." % (c["row"]["i1"], c["row"]["i2"], c["row"]["d12"]),
          "(* the columns of a file row, and which result vector receives which field (returned as (m1, m2, d12)) *)",
          "Definition src_file_columns : list string := %s." % slist(c["file_columns"]),
          "Definition src_memory_columns : list (string * string) := %s." % plist(c["memory_columns"]),
          "(* idlist is filled from these lists, in this order *)",
          "Definition src_idlist_order : list string := %s." % slist(c["idlist_order"])]
    L += ["", "(* ---- htmc.h, PAIR_INFO_ORDERING: return %s; *)" % c["before_text"],
          "Definition src_before (d1 d2 : Z) : bool := %s." % c["before"],
          "", "(* ---- htm.py: the tests that raise ValueError *)",
          "Definition src_matcher_init_rejects (ra_size dec_size : Z) : bool := %s." % p["init_rejects"],
          "Definition src_matcher_match_rejects (ra_size dec_size radius_size : Z) : bool := %s." % p["match_rejects"],
          "Definition src_htm_match_rejects (ra1_size dec1_size ra2_size dec2_size radius_size : Z) : bool := %s." % p["htm_rejects"],
          "(* the exception class of those tests *)",
          "Definition src_matcher_init_error : err := %s." % p["init_error"],
          "Definition src_matcher_match_error : err := %s." % p["match_error"],
          "Definition src_htm_match_error : err := %s." % p["htm_error"],
          "(* defaults of the optional arguments: maxmatch=, file= *)",
          "Definition src_matcher_match_default_maxmatch : Z := %s." % cfrac(Fraction(p["match_default_maxmatch"]), "Z").replace("-", "- ") ,
          "Definition src_htm_match_default_maxmatch : Z := %s." % cfrac(Fraction(p["htm_default_maxmatch"]), "Z").replace("-", "- "),
          "Definition src_default_file_is_none : bool * bool := (%s, %s)." % (str(p["match_default_file_none"]).lower(), str(p["htm_default_file_none"]).lower()),
          "(* HTM.match: Matcher(%s).match(%s); Matcher.match: super().match(%s) *)" % (
              ", ".join(p["htm_builds"][0]), ", ".join(p["htm_calls"][0] + ["%s=%s" % kv for kv in p["htm_calls"][1]]), ", ".join(p["matcher_calls"][0])),
          "Definition src_htm_builds : list string * list (string * string) := (%s, %s)." % (slist(p["htm_builds"][0]), plist(p["htm_builds"][1])),
          "Definition src_htm_calls : list string * list (string * string) := (%s, %s)." % (slist(p["htm_calls"][0]), plist(p["htm_calls"][1])),
          "Definition src_matcher_calls : list string * list (string * string) := (%s, %s)." % (slist(p["matcher_calls"][0]), plist(p["matcher_calls"][1])),
          "(* read_pairs: Recfile(filename, \"r\", dtype=dtype, delim=...) *)",
          "Definition src_pair_dtype : list (string * string) := [%s]." % "; ".join("(%s, %s)" % (cstring(a), cstring(b)) for a, b in p["dtype"]),
          "Definition src_pair_delim : string := %s." % cstring(p["delim"]),
          "(* read_pairs: %s *)" % (("if %s: data = np.zeros(0, dtype=dtype)" % p["shortcut_text"]) if p["shortcut_text"] else "no test of the file size in this tree"),
          "Definition src_read_pairs_shortcut (file_size : Z) : bool := %s." % p["shortcut"], ""]
    return "\n".join(L)


def genr_text(c):
    L = [HDR % "C12/SepProofs.v",
         "From Coq Require Import Reals.\nFrom EsVerif.C12 Require Import SepModel.\nOpen Scope R_scope.\n",
         "(* #define NPY_PI %s   (checked: pi to all its digits) *)" % c["pi_text"],
         "(* #define R2D %s *)" % c["R2D_text"],
         "Definition src_R2D : R := %s." % c["R2D"],
         "(* #define D2R %s *)" % c["D2R_text"],
         "Definition src_D2R : R := %s." % c["D2R"],
         "", "(* double gcirc(double ra1, double dec1, double ra2, double dec2, bool degrees) *)",
         "Definition src_gcirc (ra1 dec1 ra2 dec2 : R) (degrees : bool) : R :=", c["gcirc"],
         "", "(* the cap handed to SpatialDomain::setRaDecD by Matcher::match, as a function of the search radius *)",
         ("(* #define MATCH_COVER_PAD_DEGREES %s *)" % c["pad_text"]) if c["pad_text"] else "(* no MATCH_COVER_PAD_DEGREES in this tree *)",
         "Definition src_cover_pad : R := %s." % cfrac(c["pad"], "R"),
         "Definition src_cover_cosine (radius : R) : R :=", c["cover_cosine"], ""]
    return "\n".join(L)


def translate(impl_dir):
    """-> (Gen.v text, GenR.v text, summary dict); raises TranslateError"""
    def rd(*parts):
        p_ = os.path.join(impl_dir, *parts)
        try:
            return open(p_).read()
        except OSError as e:
            raise TranslateError("cannot read %s: %s" % (p_, e))
    try:
        c = extract_c(rd("esutil", "htm", "htmc.cc"), rd("esutil", "htm", "htmc.h"))
        p = extract_py(rd("esutil", "htm", "htm.py"))
    except (ValueError, IndexError, RecursionError) as e:
        raise TranslateError("source no longer has the expected shape: %s: %s" % (type(e).__name__, e))
    summary = {"keep": c["keep_text"], "before": c["before_text"], "format": c["format"],
               "pad": str(c["pad_text"]), "dtype": p["dtype"], "delim": p["delim"]}
    return gen_text(c, p), genr_text(c), summary


def _write_if_changed(dst, txt):
    old = open(dst).read() if os.path.exists(dst) else None
    if old == txt:
        return False
    tmp = dst + ".tmp.%d" % os.getpid()
    with open(tmp, "w") as f:
        f.write(txt)
    os.replace(tmp, dst)
    return True


def regenerate(impl_dir, coqdir):
    """-> (summary, changed: bool); raises TranslateError (the files are then left as they were)"""
    g, gr, summary = translate(impl_dir)
    d = os.path.join(coqdir, "theories", "C12")
    ch1 = _write_if_changed(os.path.join(d, "Gen.v"), g)
    ch2 = _write_if_changed(os.path.join(d, "GenR.v"), gr)
    return summary, (ch1 or ch2)


if __name__ == "__main__":
    import sys
    g, gr, s = translate(sys.argv[1])
    if len(sys.argv) > 2:
        open(os.path.join(sys.argv[2], "Gen.v"), "w").write(g)
        open(os.path.join(sys.argv[2], "GenR.v"), "w").write(gr)
    else:
        print(g)
        print(gr)
    print(s, file=sys.stderr)

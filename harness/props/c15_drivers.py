"""
C15 — the obligations: one DRIVER per (public function, option valuation).

A driver is a few lines of python calling ONE public esutil function with the options of one
valuation.  The SAME source text is (a) turned into an effect skeleton by
harness/translate/c15_skeleton.py and decided by the verified frame checker in Coq, and
(b) compiled and executed against the scratch build on the argument matrix of the dynamic run.

Parameters WITHOUT annotation are array arguments: they are the parameters of the frame
obligation (must be bit-for-bit unchanged) unless listed in `exempt`.  Annotated parameters are
fixtures supplied by the harness (`fname: str` = a fresh temporary file name).

gen kinds (value ranges; dtype / byte order / layout / ndim come from the matrix):
  x generic reals, ra [0,360), dec (-90,90), eta [-180,180], unit [-1,1], z (0.01,3), w (0.1,2) weights,
  pix [0,2000], int [0,20), uniq distinct ints, flag {0..3}, sx sorted reals, cov SPD matrix (2-d only),
  cor correlation matrix (2-d only), diag positive 1-d, rec / rec2 structured arrays, recnum structured array
  whose fields are all numeric, vals values matching rec's field 'x', small (0.2, 2) degrees.
"""

PRELUDE = '''
TAN_HDR = {'ctype1': 'RA---TAN', 'ctype2': 'DEC--TAN', 'crpix1': 1024.5, 'crpix2': 1024.5, 'crval1': 150.0, 'crval2': 2.2,
           'cd1_1': -7.3e-05, 'cd1_2': 1.0e-07, 'cd2_1': 2.0e-07, 'cd2_2': 7.3e-05, 'cunit1': 'deg', 'cunit2': 'deg',
           'naxis1': 2048, 'naxis2': 2048}
TPV_HDR = dict(TAN_HDR, ctype1='RA---TPV', ctype2='DEC--TPV', pv1_0=-0.009, pv1_1=1.02, pv1_2=-0.013, pv1_4=-0.029, pv1_5=0.021,
               pv1_6=-0.015, pv1_7=0.010, pv2_0=0.002, pv2_1=0.999, pv2_2=-0.009, pv2_4=-0.019, pv2_5=-0.014, pv2_6=0.009, pv2_7=-0.021)
from esutil import integrate, random
SIP_HDR = dict(TAN_HDR, ctype1='RA---TAN-SIP', ctype2='DEC--TAN-SIP', a_order=2, b_order=2, a_2_0=2.0e-06, a_1_1=-1.0e-06, a_0_2=3.0e-06,
               b_2_0=-2.0e-06, b_1_1=1.5e-06, b_0_2=1.0e-06, ap_order=2, bp_order=2, ap_2_0=-2.0e-06, ap_1_1=1.0e-06, ap_0_2=-3.0e-06,
               bp_2_0=2.0e-06, bp_1_1=-1.5e-06, bp_0_2=-1.0e-06)
'''

NUM = ("f8", "f4", "i8", "i4")
FLT = ("f8", "f4")
INT = ("i8", "i4")
REC = ("rec",)

D = []


def drv(name, fam, src, gen, nd=(1, 0, 2), dt=NUM, exempt=None, func=None, valuation="", slow=False, n=8, needs=None, static_skip=None):
    """static_skip: reason why NO static obligation is generated for this driver (known imprecision of the extractor); the driver is
    then covered by the dynamic run only, and says so in the evidence.
    needs: inventory key ("alias:qualname", see c15_translate) of a callable that exists only in some trees (a helper
    introduced by a fix: commit); the driver is skipped, with a note, on a tree that does not have it"""
    D.append(dict(name=name, fam=fam, src=src.strip("\n") + "\n", gen=gen, nd=nd, dt=dt, exempt=exempt or {},
                  func=func or name, valuation=valuation, slow=slow, n=n, needs=needs, static_skip=static_skip))


# ------------------------------------------------------------------ record files (binary + text)
# GENERATED option matrix.  The C writer (records.cpp, covered dynamically + by the syntactic write-path scan) reads the options
# delim (binary / text), padnull, ignorenull, bracket_arrays and the open mode; every writer entry point is driven with every
# combination, on the table kind "recio" whose data make each option matter (S fields with empty / short / full-width values and
# embedded NULs, a sub-array S field, 1-d and 2-d numeric sub-arrays; native, swapped and mixed byte order; contiguous and strided).
# A driver hands the array under test to exactly ONE call (earlier calls that only prepare the file get a copy): two text writes
# of the same non-native table would swap it twice and so hide the as-found defect from the snapshot.
RECIO = {"data": "recio"}
NULL_OPTS = (("", ""), ("padnull=True", "padnull"), ("ignorenull=True", "ignorenull"), ("padnull=True, ignorenull=True", "padnull+ignorenull"),
             ("padnull=True, ignorenull=False", "padnull, ignorenull=False"))
DELIMS = ((",", "comma"), (" ", "space"), ("\\t", "tab"), (":", "colon"))


def _kw(*parts):
    return "".join(", " + x for x in parts if x)


def _tag(*parts):
    return "_".join(x.replace("+", "_").replace(", ", "_").replace("=", "").replace(" ", "") for x in parts if x)


WRITERS = (
    # (name, function label, source template with %(kw)s = keyword text, supports bracket_arrays, all delimiters?)
    ("sfile_write", "sfile.write", "def f(data, fname: str):\n    sfile.write(fname, data%(kw)s)\n", False, True),
    ("SFile_write", "SFile.write", "def f(data, fname: str):\n    with SFile(fname, 'w'%(kw)s) as sf:\n        sf.write(data)\n", False, False),
    ("recfile_write", "recfile.write", "def f(data, fname: str):\n    recfile.write(fname, data%(kw)s)\n", True, False),
    ("Recfile_write", "Recfile.write", "def f(data, fname: str):\n    with Recfile(fname, 'w'%(kw)s) as r:\n        r.write(data)\n", True, True),
    ("io_write_rec", "io.write", "def f(data, fname: str):\n    io.write(fname, data, type='rec'%(kw)s)\n", False, False),
)
for wname, wfunc, tmpl, has_bracket, all_delims in WRITERS:
    drv(wname + "_bin", "recfile", tmpl % {"kw": ""}, RECIO, nd=(1,), dt=REC, func=wfunc, valuation="binary", n=6)
    for dl, dtag in (DELIMS if all_delims else DELIMS[:2]):
        for nkw, ntag in NULL_OPTS:
            if ntag == "padnull, ignorenull=False" and dtag != "comma":
                continue
            drv(_tag(wname, "txt", dtag, ntag), "recfile", tmpl % {"kw": _kw("delim='%s'" % dl, nkw)}, RECIO, nd=(1,), dt=REC, func=wfunc,
                valuation="text delim=%s%s" % (dtag, (", " + ntag) if ntag else ""), n=6)
    if has_bracket:
        for dl, dtag in DELIMS[:2]:
            for nkw, ntag in NULL_OPTS[:4]:
                drv(_tag(wname, "bracket", dtag, ntag), "recfile", tmpl % {"kw": _kw("delim='%s'" % dl, "bracket_arrays=True", nkw)}, RECIO,
                    nd=(1,), dt=REC, func=wfunc, valuation="text delim=%s, bracket_arrays=True%s" % (dtag, (", " + ntag) if ntag else ""), n=6)
drv("sfile_write_swapped_args", "recfile", "def f(data, fname: str):\n    sfile.write(data, fname, delim=',', padnull=True)\n",
    RECIO, nd=(1,), dt=REC, func="sfile.write", valuation="(data, filename) order, text, padnull", n=6)
drv("sfile_write_header_txt", "recfile", "def f(data, fname: str):\n    sfile.write(fname, data, delim=',', header={'a': 1, 'b': 'x'})\n",
    RECIO, nd=(1,), dt=REC, func="sfile.write", valuation="text, header=", n=6)
# second write into an open file, append, r+ (the file is prepared with a COPY of the table)
for tag, kw, val in (("bin", "", "binary"), ("txt", ", delim=','", "text"), ("txt_padnull", ", delim=',', padnull=True", "text, padnull"),
                     ("txt_ignorenull", ", delim=' ', ignorenull=True", "text delim=space, ignorenull")):
    drv("sfile_write_append_" + tag, "recfile",
        "def f(data, fname: str):\n    sfile.write(fname, data.copy()%s)\n    sfile.write(fname, data%s, append=True)\n" % (kw, kw),
        RECIO, nd=(1,), dt=REC, func="sfile.write", valuation=val + ", append=True after a first write", n=6)
    drv("SFile_write_second_" + tag, "recfile",
        "def f(data, fname: str):\n    with SFile(fname, 'w'%s) as sf:\n        sf.write(data.copy())\n        sf.write(data)\n" % kw,
        RECIO, nd=(1,), dt=REC, func="SFile.write", valuation=val + ", second write into an open file", n=6)
    drv("SFile_write_header_" + tag, "recfile",
        "def f(data, fname: str):\n    sf = SFile(fname, 'w'%s)\n    sf.write(data, header={'k': [1, 2]})\n    sf.close()\n" % kw,
        RECIO, nd=(1,), dt=REC, func="SFile.write", valuation=val + ", mode w, header=", n=6)
    drv("SFile_write_rplus_" + tag, "recfile",
        "def f(data, fname: str):\n    sfile.write(fname, data.copy()%s)\n    sf = SFile(fname, 'r+'%s)\n    sf.write(data)\n    sf.close()\n"
        % (kw, kw.replace(", delim=','", "").replace(", delim=' '", "")),
        RECIO, nd=(1,), dt=REC, func="SFile.write", valuation=val + ", mode r+ on an existing file", n=6)
    if tag != "bin":
        drv("Recfile_write_rplus_" + tag, "recfile",
            "def f(data, fname: str):\n    recfile.write(fname, data.copy()%s)\n"
            "    r = Recfile(fname, 'r+'%s, dtype=data.dtype, nrows=data.size)\n    r.write(data)\n    r.close()\n" % (kw, kw),
            RECIO, nd=(1,), dt=REC, func="Recfile.write", valuation=val + ", mode='r+' on an existing file", n=6)
        drv("recfile_write_rplus_" + tag, "recfile",
            "def f(data, fname: str):\n    recfile.write(fname, data.copy()%s)\n"
            "    recfile.write(fname, data, mode='r+'%s, dtype=data.dtype, nrows=data.size)\n" % (kw, kw),
            RECIO, nd=(1,), dt=REC, func="recfile.write", valuation=val + ", mode='r+' on an existing file", n=6)

# ------------------------------------------------------------------ field operations
drv("extract_fields", "fields", "def f(arr):\n    return numpy_util.extract_fields(arr, ['x', 'id'])\n", {"arr": "rec"}, dt=REC, valuation="strict=True")
drv("extract_fields_nonstrict", "fields", "def f(arr):\n    return numpy_util.extract_fields(arr, ['x', 'nope'], strict=False)\n", {"arr": "rec"},
    dt=REC, func="extract_fields", valuation="strict=False")
drv("extract_fields_scalarname", "fields", "def f(arr):\n    return numpy_util.extract_fields(arr, 'v')\n", {"arr": "rec"}, dt=REC,
    func="extract_fields", valuation="single name")
drv("remove_fields", "fields", "def f(arr):\n    return numpy_util.remove_fields(arr, ['x', 's'])\n", {"arr": "rec"}, dt=REC)
drv("add_fields", "fields", "def f(arr):\n    return numpy_util.add_fields(arr, [('new1', 'f8'), ('new2', 'i4', 2)])\n", {"arr": "rec"}, dt=REC,
    valuation="defaults=None")
drv("add_fields_defaults", "fields",
    "def f(arr, vals):\n    return numpy_util.add_fields(arr, [('new1', 'f8')], defaults=[vals])\n", {"arr": "rec", "vals": "vals"}, dt=REC,
    func="add_fields", valuation="defaults=[array]")
drv("reorder_fields", "fields", "def f(arr):\n    return numpy_util.reorder_fields(arr, ['v', 'id'])\n", {"arr": "rec"}, dt=REC, valuation="strict=True")
drv("reorder_fields_nonstrict", "fields", "def f(arr):\n    return numpy_util.reorder_fields(arr, ['v', 'nope'], strict=False)\n", {"arr": "rec"},
    dt=REC, func="reorder_fields", valuation="strict=False")
drv("combine_fields", "fields", "def f(arr1, arr2):\n    return numpy_util.combine_fields([arr1, arr2])\n", {"arr1": "rec", "arr2": "rec2"}, dt=REC)
drv("combine_fields_single", "fields", "def f(arr1):\n    return numpy_util.combine_fields([arr1])\n", {"arr1": "rec"}, dt=REC,
    func="combine_fields", valuation="one array")
drv("copy_fields", "fields", "def f(arr1, arr2):\n    numpy_util.copy_fields(arr1, arr2)\n", {"arr1": "rec", "arr2": "rec_like"}, dt=REC,
    exempt={"arr2": "documented destination: 'Copy common fields from one array1 to array2'"})
drv("copy_fields_by_name", "fields", "def f(arr, vals):\n    numpy_util.copy_fields_by_name(arr, ['x'], [vals])\n", {"arr": "rec", "vals": "vals"},
    dt=REC, exempt={"arr": "documented destination: 'Copy values into a numpy array by field name'"})
drv("split_fields", "fields", "def f(data):\n    return numpy_util.split_fields(data)\n", {"data": "rec"}, dt=REC, valuation="fields=None")
drv("split_fields_names", "fields", "def f(data):\n    return numpy_util.split_fields(data, fields=['x', 'v'], getnames=True)\n", {"data": "rec"},
    dt=REC, func="split_fields", valuation="fields=[...], getnames=True")
drv("sfile_split_fields", "fields", "def f(data):\n    return sfile.split_fields(data, fields='x')\n", {"data": "rec"}, dt=REC,
    func="sfile.split_fields", valuation="fields='x'")
drv("compare_arrays", "fields", "def f(arr1, arr2):\n    return numpy_util.compare_arrays(arr1, arr2)\n", {"arr1": "rec", "arr2": "rec_like"}, dt=REC,
    valuation="ignore_missing=True")
drv("compare_arrays_strict", "fields", "def f(arr1, arr2):\n    return numpy_util.compare_arrays(arr1, arr2, ignore_missing=False)\n",
    {"arr1": "rec", "arr2": "rec2"}, dt=REC, func="compare_arrays", valuation="ignore_missing=False")
drv("combine_arrlist", "fields", "def f(a, b):\n    return numpy_util.combine_arrlist([a, b], keep=True)\n", {"a": "rec", "b": "rec_like"}, dt=REC,
    nd=(1,), valuation="keep=True")
drv("combine_arrlist_pop", "fields", "def f(a, b):\n    return numpy_util.combine_arrlist([a, b])\n", {"a": "x", "b": "x"}, nd=(1,),
    func="combine_arrlist", valuation="keep=False (the LIST is emptied, the arrays are not touched)")
drv("arrscl", "fields", "def f(arr):\n    return numpy_util.arrscl(arr, 0.0, 1.0)\n", {"arr": "x"})
drv("between", "fields", "def f(arr):\n    return numpy_util.between(arr, -1, 5)\n", {"arr": "x"})
drv("outside", "fields", "def f(arr):\n    return numpy_util.outside(arr, -1, 5, type='][')\n", {"arr": "x"})
drv("where1", "fields", "def f(arr):\n    return numpy_util.where1(arr > 0)\n", {"arr": "x"}, nd=(1, 2))
drv("select_percentile", "fields", "def f(x):\n    return numpy_util.select_percentile(x, [25, 75], get_ranges=True)\n", {"x": "x"}, nd=(1,))
drv("splitarray", "fields", "def f(var):\n    return numpy_util.splitarray(3, var)\n", {"var": "x"}, nd=(1, 0))

# ------------------------------------------------------------------ byte order
for fn in ("to_native", "to_big_endian", "to_little_endian", "byteswap"):
    for keep in (False, True):
        drv("%s_keep%d" % (fn, keep), "byteorder",
            "def f(array):\n    return numpy_util.%s(array, inplace=False, keep_dtype=%s)\n" % (fn, keep), {"array": "x"},
            func=fn, valuation="inplace=False, keep_dtype=%s" % keep)
        drv("%s_rec_keep%d" % (fn, keep), "byteorder",
            "def f(array):\n    return numpy_util.%s(array, inplace=False, keep_dtype=%s)\n" % (fn, keep), {"array": "recnum"}, dt=REC,
            func=fn, valuation="structured, inplace=False, keep_dtype=%s" % keep)
    drv("%s_default" % fn, "byteorder", "def f(array):\n    return numpy_util.%s(array)\n" % fn, {"array": "x"}, func=fn, valuation="defaults")
    drv("%s_inplace" % fn, "byteorder", "def f(array):\n    return numpy_util.%s(array, inplace=True)\n" % fn, {"array": "x"}, func=fn,
        valuation="inplace=True", exempt={"array": "documented in-place: inplace=True"})
drv("is_big_endian", "byteorder", "def f(array):\n    return numpy_util.is_big_endian(array), numpy_util.is_little_endian(array)\n", {"array": "x"},
    func="is_big_endian/is_little_endian")

# ------------------------------------------------------------------ match / unique
for pre in (False, True):
    drv("match_presorted%d" % pre, "match", "def f(arr1, arr2):\n    return numpy_util.match(arr1, arr2, presorted=%s)\n" % pre,
        {"arr1": "uniq_sorted" if pre else "uniq", "arr2": "int"}, nd=(1, 0), func="match", valuation="presorted=%s" % pre)
drv("match_multi", "match", "def f(arr1, arr2):\n    return numpy_util.match_multi(arr1, arr2)\n", {"arr1": "uniq", "arr2": "int"}, nd=(1, 0))
for v in (False, True):
    drv("unique_values%d" % v, "match", "def f(arr):\n    return numpy_util.unique(arr, values=%s)\n" % v, {"arr": "int"}, nd=(1,),
        func="unique", valuation="values=%s" % v)
    drv("rem_dup_values%d" % v, "match", "def f(arr, flag):\n    return numpy_util.rem_dup(arr, flag, values=%s)\n" % v, {"arr": "int", "flag": "flag"},
        nd=(1,), func="rem_dup", valuation="values=%s" % v)

# ------------------------------------------------------------------ histograms / binning with weights
drv("histogram_binsize", "hist", "def f(data):\n    return stat.histogram(data, binsize=3.0)\n", {"data": "x"}, nd=(1, 0), func="histogram", valuation="binsize")
drv("histogram_nbin_rev", "hist", "def f(data):\n    return stat.histogram(data, nbin=4, rev=True)\n", {"data": "x"}, nd=(1, 0), func="histogram",
    valuation="nbin, rev=True")
drv("histogram_minmax", "hist", "def f(data):\n    return stat.histogram(data, binsize=2.0, min=-5, max=20, rev=True)\n", {"data": "x"}, nd=(1,),
    func="histogram", valuation="binsize, min, max, rev")
drv("histogram_nperbin", "hist", "def f(data):\n    return stat.histogram(data, nperbin=3)\n", {"data": "x"}, nd=(1,), func="histogram", valuation="nperbin")
drv("histogram_weights", "hist", "def f(data, weights):\n    return stat.histogram(data, weights=weights, nbin=3)\n", {"data": "x", "weights": "w"},
    nd=(1,), func="histogram", valuation="weights, nbin")
drv("histogram_weights_nperbin", "hist", "def f(data, weights):\n    return stat.histogram(data, weights=weights, nperbin=4, mergelast=True)\n",
    {"data": "x", "weights": "w"}, nd=(1,), func="histogram", valuation="weights, nperbin")
drv("histogram_more", "hist", "def f(data):\n    return stat.histogram(data, binsize=4.0, more=True)\n", {"data": "x"}, nd=(1,), func="histogram", valuation="more=True")
drv("Binner_xyw", "hist",
    "def f(x, y, weights):\n    b = stat.Binner(x, y=y, weights=weights)\n    b.dohist(nbin=3)\n    b.calc_stats()\n    return b\n",
    {"x": "x", "y": "x", "weights": "w"}, nd=(1,), func="Binner", valuation="x, y, weights; dohist(nbin); calc_stats")
drv("Binner_x_binsize", "hist", "def f(x):\n    b = stat.Binner(x)\n    b.dohist(binsize=5.0, rev=True)\n    b.calc_stats()\n    return b\n",
    {"x": "x"}, nd=(1, 0), func="Binner", valuation="x only; dohist(binsize, rev)")
drv("Binner_xw_nperbin", "hist",
    "def f(x, weights):\n    b = stat.Binner(x, weights=weights)\n    b.dohist(nperbin=3, min=-40, max=40)\n    b.calc_stats()\n    return b\n",
    {"x": "x", "weights": "w"}, nd=(1,), func="Binner", valuation="x, weights; dohist(nperbin, min, max)")
drv("histogram2d_plain", "hist", "def f(x, y):\n    return stat.histogram2d(x, y, nx=3, ny=2)\n", {"x": "x", "y": "x"}, nd=(1, 0), func="histogram2d",
    valuation="nx, ny")
drv("histogram2d_weights", "hist", "def f(x, y, weights):\n    return stat.histogram2d(x, y, weights=weights, xbin=20.0, ybin=25.0)\n",
    {"x": "x", "y": "x", "weights": "w"}, nd=(1,), func="histogram2d", valuation="weights, xbin, ybin")
drv("histogram2d_z_rev", "hist", "def f(x, y, z):\n    return stat.histogram2d(x, y, z=z, nx=2, ny=2, rev=True, more=True)\n",
    {"x": "x", "y": "x", "z": "x"}, nd=(1,), func="histogram2d", valuation="z, rev, more")

# ------------------------------------------------------------------ statistics helpers
drv("wmom", "stat", "def f(arr, weights):\n    return stat.wmom(arr, weights)\n", {"arr": "x", "weights": "w"}, nd=(1, 0), valuation="defaults")
drv("wmom_calcerr_sdev", "stat", "def f(arr, weights):\n    return stat.wmom(arr, weights, calcerr=True, sdev=True)\n", {"arr": "x", "weights": "w"},
    nd=(1, 2), func="wmom", valuation="calcerr, sdev")
drv("wmom_inputmean", "stat", "def f(arr, weights):\n    return stat.wmom(arr, weights, inputmean=0.5, sdev=True)\n", {"arr": "x", "weights": "w"},
    nd=(1,), func="wmom", valuation="inputmean")
drv("wmedian", "stat", "def f(arr, weights):\n    return stat.wmedian(arr, weights)\n", {"arr": "x", "weights": "w"}, nd=(1, 0))
drv("sigma_clip", "stat", "def f(arr):\n    return stat.sigma_clip(arr, nsig=2.0, niter=3, silent=True)\n", {"arr": "x"}, nd=(1, 0), valuation="no weights")
drv("sigma_clip_weights", "stat",
    "def f(arr, weights):\n    return stat.sigma_clip(arr, weights=weights, nsig=2.5, get_err=True, get_indices=True, silent=True)\n",
    {"arr": "x", "weights": "w"}, nd=(1,), func="sigma_clip", valuation="weights, get_err, get_indices")
drv("interplin", "stat", "def f(v, x, u):\n    return stat.interplin(v, x, u)\n", {"v": "x", "x": "sx", "u": "x"}, nd=(1,))
drv("interplin_scalar_u", "stat", "def f(v, x):\n    return stat.interplin(v, x, 0.3)\n", {"v": "x", "x": "sx"}, nd=(1,), func="interplin", valuation="scalar u")
drv("get_stats", "stat", "def f(arr):\n    return stat.get_stats(arr)\n", {"arr": "x"}, nd=(1, 2, 0), valuation="plain")
drv("get_stats_weights", "stat", "def f(arr, weights):\n    return stat.get_stats(arr, weights=weights)\n", {"arr": "x", "weights": "w"}, nd=(1,),
    func="get_stats", valuation="weights")
drv("get_stats_clip", "stat", "def f(arr):\n    return stat.get_stats(arr, nsig=3.0, niter=2, silent=True)\n", {"arr": "x"}, nd=(1,), func="get_stats",
    valuation="nsig, niter (sigma clipping)")
drv("print_stats", "stat", "def f(arr):\n    stat.print_stats(arr, nsigma=2.0)\n", {"arr": "x"}, nd=(1, 2))
drv("cov2cor", "stat", "def f(cov):\n    return stat.cov2cor(cov)\n", {"cov": "cov"}, nd=(2,), dt=FLT)
drv("cor2cov", "stat", "def f(cor, diagerr):\n    return stat.cor2cov(cor, diagerr)\n", {"cor": "cor", "diagerr": "diag"}, nd=(2,), dt=FLT)
drv("boxcar_average", "stat", "def f(x):\n    return stat.boxcar_average(x, 3)\n", {"x": "x"}, nd=(1,))

# ------------------------------------------------------------------ coordinates
for sel in (1, 2, 3, 4, 5, 6):
    drv("euler_%d" % sel, "coords", "def f(ai, bi):\n    return coords.euler(ai, bi, %d)\n" % sel, {"ai": "ra", "bi": "dec"}, func="euler",
        valuation="select=%d" % sel, n=4)
drv("euler_b1950_f4", "coords", "def f(ai, bi):\n    return coords.euler(ai, bi, 1, b1950=True, dtype='f4')\n", {"ai": "ra", "bi": "dec"}, func="euler",
    valuation="b1950=True, dtype='f4'")
for fn in ("eq2gal", "gal2eq", "eq2ec", "ec2eq", "ec2gal", "gal2ec"):
    drv(fn, "coords", "def f(a, b):\n    return coords.%s(a, b)\n" % fn, {"a": "ra", "b": "dec"}, n=4)
for u in ("deg", "rad"):
    for st in (False, True):
        drv("eq2xyz_%s_stomp%d" % (u, st), "coords", "def f(ra, dec):\n    return coords.eq2xyz(ra, dec, units='%s', stomp=%s)\n" % (u, st),
            {"ra": "ra" if u == "deg" else "unit", "dec": "dec" if u == "deg" else "unit"}, func="eq2xyz", valuation="units=%s, stomp=%s" % (u, st), n=4)
        drv("xyz2eq_%s_stomp%d" % (u, st), "coords", "def f(x, y, z):\n    return coords.xyz2eq(x, y, z, units='%s', stomp=%s)\n" % (u, st),
            {"x": "unit", "y": "unit", "z": "unit"}, func="xyz2eq", valuation="units=%s, stomp=%s" % (u, st), n=4)
drv("sphdist_deg", "coords", "def f(ra1, dec1, ra2, dec2):\n    return coords.sphdist(ra1, dec1, ra2, dec2)\n",
    {"ra1": "ra", "dec1": "dec", "ra2": "ra", "dec2": "dec"}, func="sphdist", valuation="units deg/deg")
drv("sphdist_rad", "coords", "def f(ra1, dec1, ra2, dec2):\n    return coords.sphdist(ra1, dec1, ra2, dec2, units=['rad', 'rad'])\n",
    {"ra1": "unit", "dec1": "unit", "ra2": "unit", "dec2": "unit"}, func="sphdist", valuation="units rad/rad")
drv("sphdist_deg_rad", "coords", "def f(ra1, dec1, ra2, dec2):\n    return coords.sphdist(ra1, dec1, ra2, dec2, units=['deg', 'rad'])\n",
    {"ra1": "ra", "dec1": "dec", "ra2": "ra", "dec2": "dec"}, func="sphdist", valuation="units deg/rad")
for g in (False, True):
    drv("gcirc_getangle%d" % g, "coords", "def f(ra1, dec1, ra2, dec2):\n    return coords.gcirc(ra1, dec1, ra2, dec2, getangle=%s)\n" % g,
        {"ra1": "ra", "dec1": "dec", "ra2": "ra", "dec2": "dec"}, func="gcirc", valuation="getangle=%s" % g)
drv("eq2sdss", "coords", "def f(ra, dec):\n    return coords.eq2sdss(ra, dec)\n", {"ra": "ra", "dec": "dec"})
drv("eq2sdss_f4", "coords", "def f(ra, dec):\n    return coords.eq2sdss(ra, dec, dtype='f4')\n", {"ra": "ra", "dec": "dec"}, func="eq2sdss", valuation="dtype='f4'")
drv("sdss2eq", "coords", "def f(clambda, ceta):\n    return coords.sdss2eq(clambda, ceta)\n", {"clambda": "dec", "ceta": "eta"})
drv("rotate", "coords", "def f(ra, dec):\n    return coords.rotate(10.0, 20.0, 30.0, ra, dec)\n", {"ra": "ra", "dec": "dec"})
drv("shiftlon_wrap", "coords", "def f(lon):\n    return coords.shiftlon(lon)\n", {"lon": "ra"}, func="shiftlon", valuation="wrap=True")
drv("shiftlon_shift_pos", "coords", "def f(lon):\n    return coords.shiftlon(lon, shift=40.0)\n", {"lon": "ra"}, func="shiftlon", valuation="shift>0")
drv("shiftlon_shift_neg", "coords", "def f(lon):\n    return coords.shiftlon(lon, shift=-40.0, wrap=False)\n", {"lon": "ra"}, func="shiftlon", valuation="shift<0")
drv("shiftra", "coords", "def f(ra):\n    return coords.shiftra(ra, shift=100.0)\n", {"ra": "ra"})
drv("radec2aitoff", "coords", "def f(ra, dec):\n    return coords.radec2aitoff(ra, dec)\n", {"ra": "ra", "dec": "dec"})
for gr in (False, True):
    for rot in (False, True):
        drv("randcap_radius%d_rot%d" % (gr, rot), "coords",
            "def f(ra, dec):\n    return coords.randcap(5, ra, dec, 1.5, get_radius=%s, dorot=%s, rng=np.random.RandomState(3))\n" % (gr, rot),
            {"ra": "ra", "dec": "dec"}, nd=(0,), func="randcap", valuation="centre args; get_radius=%s, dorot=%s" % (gr, rot))
drv("atbound", "coords", "def f(longitude):\n    coords.atbound(longitude, 0.0, 360.0)\n", {"longitude": "eta"}, nd=(1,), dt=FLT,
    exempt={"longitude": "documented in-place helper ('mutates the array')"})

# ------------------------------------------------------------------ WCS
for h in ("TAN", "TPV", "SIP"):
    for dis in (True, False):
        drv("wcs_image2sky_%s_distort%d" % (h, dis), "wcs",
            "def f(x, y):\n    w = wcsutil.WCS(%s_HDR)\n    return w.image2sky(x, y, distort=%s)\n" % (h, dis), {"x": "pix", "y": "pix"},
            func="WCS.image2sky", valuation="%s, distort=%s" % (h, dis), n=4)
        for find in (False, True):
            drv("wcs_sky2image_%s_distort%d_find%d" % (h, dis, find), "wcs",
                "def f(lon, lat):\n    w = wcsutil.WCS(%s_HDR)\n    return w.sky2image(lon, lat, distort=%s, find=%s)\n" % (h, dis, find),
                {"lon": "wlon", "lat": "wlat"}, func="WCS.sky2image", valuation="%s, distort=%s, find=%s" % (h, dis, find), n=4,
                slow=find and h != "TAN")
    drv("wcs_get_jacobian_%s" % h, "wcs", "def f(x, y):\n    w = wcsutil.WCS(%s_HDR)\n    return w.get_jacobian(x, y)\n" % h, {"x": "pix", "y": "pix"},
        func="WCS.get_jacobian", valuation=h, n=4)
drv("wcs_get_jacobian_nodistort", "wcs", "def f(x, y):\n    w = wcsutil.WCS(TPV_HDR)\n    return w.get_jacobian(x, y, distort=False, step=0.5)\n",
    {"x": "pix", "y": "pix"}, func="WCS.get_jacobian", valuation="TPV, distort=False", n=4)
drv("wcs_from_recarray_header", "wcs", "def f(hdr):\n    w = wcsutil.WCS(hdr)\n    return w.image2sky(10.0, 20.0)\n", {"hdr": "wcsrec"}, nd=(1, 0), dt=REC,
    func="WCS.__init__", valuation="header given as a structured array")
drv("Apply2DPolynomial", "wcs", "def f(a, x, y):\n    return wcsutil.Apply2DPolynomial(a, x, y)\n", {"a": "coef", "x": "unit", "y": "unit"}, nd=(1, 0), dt=FLT)
drv("wrap_ra_diff", "wcs", "def f(dra):\n    return wcsutil.wrap_ra_diff(dra)\n", {"dra": "bigang"}, nd=(1,), dt=FLT,
    exempt={"dra": "in-place by design (module-private helper used on temporaries; array input is wrapped in place and returned)"})

# ------------------------------------------------------------------ cosmology
for fl, ctor in (("flat", "cosmology.Cosmo()"), ("curved", "cosmology.Cosmo(flat=False, omega_m=0.3, omega_l=0.8)")):
    for fn in ("Dc", "Dm", "Da", "Dl", "sigmacritinv"):
        drv("cosmo_%s_%s_vec2" % (fn, fl), "cosmo", "def f(z):\n    c = %s\n    return c.%s(0.1, z)\n" % (ctor, fn), {"z": "zhi"},
            func="Cosmo." + fn, valuation="%s, (scalar, array)" % fl, n=3)
        if fl == "flat":
            drv("cosmo_%s_vec1" % fn, "cosmo", "def f(z):\n    c = %s\n    return c.%s(z, 5.0)\n" % (ctor, fn), {"z": "z"},
                func="Cosmo." + fn, valuation="(array, scalar)", n=3)
            drv("cosmo_%s_2vec" % fn, "cosmo", "def f(z1, z2):\n    c = %s\n    return c.%s(z1, z2)\n" % (ctor, fn), {"z1": "z", "z2": "zhi"},
                func="Cosmo." + fn, valuation="(array, array)", n=3)
    drv("cosmo_distmod_%s" % fl, "cosmo", "def f(z):\n    c = %s\n    return c.distmod(z)\n" % ctor, {"z": "z"}, func="Cosmo.distmod", valuation=fl, n=3)
    drv("cosmo_dV_%s" % fl, "cosmo", "def f(z):\n    c = %s\n    return c.dV(z)\n" % ctor, {"z": "z"}, func="Cosmo.dV", valuation=fl, n=3)
    drv("cosmo_Ez_inverse_%s" % fl, "cosmo", "def f(z):\n    c = %s\n    return c.Ez_inverse(z)\n" % ctor, {"z": "z"}, func="Cosmo.Ez_inverse", valuation=fl, n=3)
drv("cosmo_V", "cosmo", "def f(z1, z2):\n    c = cosmology.Cosmo()\n    return c.V(z1, z2)\n", {"z1": "z", "z2": "zhi"}, nd=(0,), func="Cosmo.V",
    valuation="0-d array arguments")

# ------------------------------------------------------------------ HTM
drv("htm_lookup_id", "htm", "def f(ra, dec):\n    h = htm.HTM(8)\n    return h.lookup_id(ra, dec)\n", {"ra": "ra", "dec": "dec"}, nd=(1, 0), func="HTM.lookup_id")
drv("htm_match", "htm", "def f(ra1, dec1, ra2, dec2):\n    h = htm.HTM(7)\n    return h.match(ra1, dec1, ra2, dec2, 2.0, maxmatch=0)\n",
    {"ra1": "cra", "dec1": "cdec", "ra2": "cra", "dec2": "cdec"}, nd=(1, 0), func="HTM.match", valuation="scalar radius, maxmatch=0")
drv("htm_match_radius_array", "htm",
    "def f(ra1, dec1, ra2, dec2, radius):\n    h = htm.HTM(7)\n    return h.match(ra1, dec1, ra2, dec2, radius, maxmatch=2)\n",
    {"ra1": "cra", "dec1": "cdec", "ra2": "cra", "dec2": "cdec", "radius": "small"}, nd=(1,), func="HTM.match", valuation="array radius, maxmatch=2")
drv("htm_match_file", "htm",
    "def f(ra1, dec1, ra2, dec2, fname: str):\n    h = htm.HTM(7)\n    return h.match(ra1, dec1, ra2, dec2, 2.0, maxmatch=-1, file=fname)\n",
    {"ra1": "cra", "dec1": "cdec", "ra2": "cra", "dec2": "cdec"}, nd=(1,), func="HTM.match", valuation="file=, maxmatch=-1")
drv("htm_Matcher", "htm", "def f(ra1, dec1, ra2, dec2):\n    m = htm.Matcher(8, ra2, dec2)\n    return m.match(ra1, dec1, 1.0, maxmatch=1)\n",
    {"ra1": "cra", "dec1": "cdec", "ra2": "cra", "dec2": "cdec"}, nd=(1, 0), func="Matcher / Matcher.match")
drv("htm_bincount", "htm",
    "def f(ra1, dec1, ra2, dec2):\n    h = htm.HTM(7)\n    return h.bincount(0.05, 3.0, 4, ra1, dec1, ra2, dec2)\n",
    {"ra1": "cra", "dec1": "cdec", "ra2": "cra", "dec2": "cdec"}, nd=(1,), func="HTM.bincount", valuation="degrees, getbins=True")
drv("htm_bincount_scale", "htm",
    "def f(ra1, dec1, ra2, dec2, scale):\n    h = htm.HTM(7)\n    return h.bincount(0.05, 3.0, 4, ra1, dec1, ra2, dec2, scale=scale, getbins=False)\n",
    {"ra1": "cra", "dec1": "cdec", "ra2": "cra", "dec2": "cdec", "scale": "w"}, nd=(1,), func="HTM.bincount", valuation="scale=array, getbins=False")
drv("htm_bincount_htmid2", "htm",
    "def f(ra1, dec1, ra2, dec2):\n    h = htm.HTM(7)\n    ids = h.lookup_id(ra2, dec2)\n    return h.bincount(0.05, 3.0, 4, ra1, dec1, ra2, dec2, htmid2=ids)\n",
    {"ra1": "cra", "dec1": "cdec", "ra2": "cra", "dec2": "cdec"}, nd=(1,), func="HTM.bincount", valuation="htmid2= given")

# ------------------------------------------------------------------ second round: remaining public array-taking functions of the
# anchored modules (the inventory check in C15.py fails closed when a public function is neither driven nor listed as out of scope)
drv("strmatch", "match", "def f(arr):\n    return numpy_util.strmatch(arr, '.*b1.*')\n", {"arr": "strs"}, dt=("U4",), nd=(1, 2))
drv("recfile_split_fields", "fields", "def f(data):\n    return recfile.Util.split_fields(data, fields=['x', 'v'], getnames=True)\n", {"data": "rec"},
    dt=REC, func="recfile.Util.split_fields", valuation="fields=[...], getnames=True")
drv("sfile_reduce_array", "fields", "def f(data):\n    return sfile.reduce_array(data)\n", {"data": "rec"}, dt=REC, func="sfile.reduce_array")
drv("recfile_to_native", "byteorder", "def f(array):\n    return recfile.Util.to_native(array)\n", {"array": "recnum"}, dt=REC,
    func="recfile.Util.to_native", valuation="structured", needs="recfile:to_native")
drv("recfile_to_native_plain", "byteorder", "def f(array):\n    return recfile.Util.to_native(array)\n", {"array": "x"},
    func="recfile.Util.to_native", valuation="plain", needs="recfile:to_native")
drv("recfile_to_native_inplace", "byteorder", "def f(array):\n    recfile.Util.to_native_inplace(array)\n", {"array": "x"},
    func="recfile.Util.to_native_inplace", exempt={"array": "in-place by name and docstring ('Convert to native byte ordering in place')"})
drv("descr_to_native", "byteorder", "def f(array):\n    return numpy_util.descr_to_native(array.dtype.descr)\n", {"array": "recnum"}, dt=REC)
drv("atbound2", "coords", "def f(theta, phi):\n    coords.atbound2(theta, phi)\n", {"theta": "bigang", "phi": "bigang"}, nd=(1,), dt=FLT,
    exempt={"theta": "in-place helper (wraps its arguments in place, returns None)", "phi": "in-place helper (wraps its arguments in place, returns None)"})
drv("rect_area", "coords", "def f(lon_min, lon_max, lat_min, lat_max):\n    return coords.rect_area(lon_min, lon_max, lat_min, lat_max)\n",
    {"lon_min": "ra", "lon_max": "ra", "lat_min": "dec", "lat_max": "dec"})
drv("randcap_brute", "coords", "def f(ra, dec):\n    np.random.seed(5)\n    return coords.randcap_brute(4, ra, dec, 40.0, get_radius=True)\n",
    {"ra": "ra", "dec": "dec"}, nd=(0,), valuation="centre given as 0-d arrays")
for inv in (False, True):
    drv("wcs_ApplyCDMatrix_inverse%d" % inv, "wcs",
        "def f(x, y):\n    w = wcsutil.WCS(TAN_HDR)\n    return w.ApplyCDMatrix(x, y, inverse=%s)\n" % inv, {"x": "pix", "y": "pix"},
        func="WCS.ApplyCDMatrix", valuation="inverse=%s" % inv, n=4)
    drv("wcs_Distort_TPV_inverse%d" % inv, "wcs",
        "def f(x, y):\n    w = wcsutil.WCS(TPV_HDR)\n    return w.Distort(x, y, inverse=%s)\n" % inv, {"x": "unit", "y": "unit"},
        func="WCS.Distort", valuation="TPV, inverse=%s" % inv, n=4)
    drv("wcs_Distort_SIP_inverse%d" % inv, "wcs",
        "def f(x, y):\n    w = wcsutil.WCS(SIP_HDR)\n    return w.Distort(x, y, inverse=%s)\n" % inv, {"x": "pix", "y": "pix"},
        func="WCS.Distort", valuation="SIP, inverse=%s" % inv, n=4)
    drv("wcs_Rotate_reverse%d" % inv, "wcs",
        "def f(lon, lat):\n    w = wcsutil.WCS(TAN_HDR)\n    return w.Rotate(lon, lat, reverse=%s)\n" % inv, {"lon": "unit", "lat": "unit"},
        func="WCS.Rotate", valuation="reverse=%s (radians)" % inv, n=4)
drv("wcs_image2sph", "wcs", "def f(x, y):\n    w = wcsutil.WCS(TAN_HDR)\n    return w.image2sph(x, y)\n", {"x": "unit", "y": "unit"},
    func="WCS.image2sph", n=4)
drv("wcs_sph2image", "wcs", "def f(lon, lat):\n    w = wcsutil.WCS(TAN_HDR)\n    return w.sph2image(lon, lat)\n", {"lon": "wlon", "lat": "dec"},
    func="WCS.sph2image", n=4)
drv("wcs_arrscl", "wcs", "def f(arr):\n    return wcsutil.arrscl(arr, 0.0, 1.0)\n", {"arr": "x"}, func="wcsutil.arrscl")
drv("wcs_make_amatrix", "wcs", "def f(u, v):\n    return wcsutil.make_amatrix(u, v, 2)\n", {"u": "unit", "v": "unit"}, nd=(1,), func="wcsutil.make_amatrix")
drv("wcs_Invert2DPolynomial", "wcs", "def f(u, v, x, y):\n    return wcsutil.Invert2DPolynomial(u, v, x, y, 1)\n",
    {"u": "unit", "v": "unit", "x": "unit", "y": "unit"}, nd=(1,), dt=FLT, func="wcsutil.Invert2DPolynomial", valuation="porder=1, pack=True")
drv("wcs_invert_for_coeffs", "wcs",
    "def f(u, v, x, y):\n    am = wcsutil.make_amatrix(u, v, 1)\n    return wcsutil.invert_for_coeffs(am, x, y, lsolve=False)\n",
    {"u": "unit", "v": "unit", "x": "unit", "y": "unit"}, nd=(1,), dt=FLT, func="wcsutil.invert_for_coeffs", valuation="lsolve=False")
drv("cosmo_Ezinv_integral", "cosmo", "def f(z1, z2):\n    c = cosmology.Cosmo()\n    return c.Ezinv_integral(z1, z2)\n", {"z1": "z", "z2": "zhi"},
    nd=(0,), func="Cosmo.Ezinv_integral", valuation="0-d array arguments")
drv("htm_cylmatch", "htm",
    "def f(ra1, dec1, z1, ra2, dec2, z2):\n    h = htm.HTM(7)\n    return h.cylmatch(ra1, dec1, z1, ra2, dec2, z2, 2.0, 0.5)\n",
    {"ra1": "cra", "dec1": "cdec", "z1": "z", "ra2": "cra", "dec2": "cdec", "z2": "z"}, nd=(1,), func="HTM.cylmatch")
drv("htm_gmean", "htm", "def f(r1, r2):\n    return htm.htm.gmean(r1, r2, 2)\n", {"r1": "small", "r2": "w"}, func="htm.gmean")

# ------------------------------------------------------------------ third round: option completeness of the coordinate helpers
drv("eq2xyz_f4", "coords", "def f(ra, dec):\n    return coords.eq2xyz(ra, dec, dtype='f4')\n", {"ra": "ra", "dec": "dec"}, func="eq2xyz",
    valuation="dtype='f4'", n=4)
drv("eq2xyz_f4_rad_stomp", "coords", "def f(ra, dec):\n    return coords.eq2xyz(ra, dec, dtype='f4', units='rad', stomp=True)\n",
    {"ra": "unit", "dec": "unit"}, dt=("f4", "f8", "i4"), func="eq2xyz", valuation="dtype='f4', units=rad, stomp=True", n=4)
drv("sphdist_rad_deg", "coords", "def f(ra1, dec1, ra2, dec2):\n    return coords.sphdist(ra1, dec1, ra2, dec2, units=['rad', 'deg'])\n",
    {"ra1": "unit", "dec1": "unit", "ra2": "unit", "dec2": "unit"}, func="sphdist", valuation="units rad/deg")
drv("sphdist_tuple_units", "coords", "def f(ra1, dec1, ra2, dec2):\n    return coords.sphdist(ra1, dec1, ra2, dec2, units=('deg', 'deg'))\n",
    {"ra1": "ra", "dec1": "dec", "ra2": "ra", "dec2": "dec"}, func="sphdist", valuation="units given as a tuple")
for fn in ("eq2gal", "gal2eq", "eq2ec"):
    drv(fn + "_b1950_f4", "coords", "def f(a, b):\n    return coords.%s(a, b, b1950=True, dtype='f4')\n" % fn, {"a": "ra", "b": "dec"}, func=fn,
        valuation="b1950=True, dtype='f4'", n=4)
drv("sdss2eq_f4", "coords", "def f(clambda, ceta):\n    return coords.sdss2eq(clambda, ceta, dtype='f4')\n", {"clambda": "dec", "ceta": "eta"},
    func="sdss2eq", valuation="dtype='f4'")
drv("shiftra_nowrap", "coords", "def f(ra):\n    return coords.shiftra(ra, shift=-30.0, wrap=False)\n", {"ra": "ra"}, func="shiftra", valuation="shift<0, wrap=False")
drv("randcap_array_rad", "coords",
    "def f(ra, dec, rad):\n    return coords.randcap(5, ra, dec, rad, rng=np.random.RandomState(3))\n",
    {"ra": "ra", "dec": "dec", "rad": "small"}, nd=(0,), func="randcap", valuation="radius given as a 0-d array")

# ------------------------------------------------------------------ integrate
drv("qgauss", "integrate", "def f(x, y):\n    return integrate.qgauss(x, y, 10)\n", {"x": "sx", "y": "x"}, nd=(1,), func="integrate.qgauss")
drv("QGauss_integrate_data", "integrate", "def f(xvals, yvals):\n    q = integrate.QGauss(8)\n    return q.integrate(xvals, yvals)\n",
    {"xvals": "sx", "yvals": "x"}, nd=(1,), func="QGauss.integrate", valuation="data")
drv("QGauss_integrate_data_npts", "integrate",
    "def f(xvals, yvals):\n    q = integrate.QGauss(8)\n    return q.integrate_data(xvals, yvals, npts=12)\n",
    {"xvals": "sx", "yvals": "x"}, nd=(1,), func="QGauss.integrate_data", valuation="npts= given (re-setup)")
drv("QGauss_integrate_func", "integrate", "def f(xvals):\n    q = integrate.QGauss(8)\n    return q.integrate(xvals, np.cos)\n",
    {"xvals": "sx"}, nd=(1,), func="QGauss.integrate", valuation="function")
drv("QGauss_integrate_func_direct", "integrate", "def f(xvals):\n    q = integrate.QGauss(8)\n    return q.integrate_func(xvals, np.cos, npts=6)\n",
    {"xvals": "sx"}, nd=(1,), func="QGauss.integrate_func", valuation="npts= given")
drv("QGauss_gaussfunc", "integrate", "def f(xvals):\n    q = integrate.QGauss(8)\n    return q.gaussfunc(xvals)\n", {"xvals": "x"}, func="QGauss.gaussfunc")

# ------------------------------------------------------------------ random generators
drv("Generator_points", "random",
    "def f(pofx, x):\n    g = random.Generator(pofx, x=x, nx=50, seed=3)\n    return g.sample(20)\n", {"pofx": "pofx", "x": "grid"}, nd=(1,), dt=FLT,
    func="random.Generator", valuation="pofx, x arrays; default method")
drv("Generator_points_cut", "random",
    "def f(pofx, x):\n    g = random.Generator(pofx, x=x, nx=50, method='cut', seed=3)\n    return g.sample(20)\n", {"pofx": "pofx", "x": "grid"},
    nd=(1,), dt=FLT, func="random.Generator", valuation="pofx, x arrays; method=cut")
for cls in ("Normal", "LogNormal"):
    for m in ("lnprob", "prob"):
        drv("%s_%s" % (cls, m), "random", "def f(x):\n    d = random.%s(1.5, 0.4)\n    return d.%s(x)\n" % (cls, m), {"x": "small"},
            func="random.%s.%s" % (cls, m))
drv("NormalND_lnprob", "random", "def f(mean, sigma, pos):\n    d = random.NormalND(mean, sigma)\n    return d.lnprob(pos)\n",
    {"mean": "mean3", "sigma": "diag", "pos": "pos3"}, nd=(1, 0), func="random.NormalND.lnprob")
drv("NormalND_sample", "random", "def f(mean, sigma):\n    np.random.seed(4)\n    d = random.NormalND(mean, sigma)\n    return d.sample(5), d.get_max()\n",
    {"mean": "mean3", "sigma": "diag"}, nd=(1,), func="random.NormalND.sample")
drv("CholeskySampler", "random",
    "def f(mean, cov):\n    np.random.seed(4)\n    c = random.CholeskySampler(mean, cov)\n    return c.sample(4)\n", {"mean": "mean3", "cov": "cov"},
    nd=(2,), dt=("f8", "f4", "i8"), func="random.CholeskySampler")
drv("cholesky_sample", "random",
    "def f(means, cov):\n    np.random.seed(4)\n    return random.cholesky_sample(cov, 4, means=means)\n", {"means": "mean3", "cov": "cov"},
    nd=(2,), dt=("f8", "f4", "i8"), func="random.cholesky_sample")

# ------------------------------------------------------------------ fourth round (wave 3): state carried across calls
# (c) ONE object reused for a second data set / parameter set through its public methods: a reference to the first arrays that
# the object keeps and a later method writes through fails the obligation (static) and changes the snapshot of the FIRST set (dynamic)
drv("reuse_WCS", "wcs",
    "def f(x, y, lon, lat, x2, y2):\n    w = wcsutil.WCS(TAN_HDR)\n    a = w.image2sky(x, y)\n    b = w.sky2image(lon, lat, find=False)\n"
    "    c = w.image2sky(x2, y2, distort=False)\n    return a, b, c\n",
    {"x": "pix", "y": "pix", "lon": "wlon", "lat": "wlat", "x2": "pix", "y2": "pix"}, nd=(1, 0), func="WCS (one object, several calls)", n=4)
drv("reuse_HTM", "htm",
    "def f(ra, dec, ra2, dec2):\n    h = htm.HTM(7)\n    i1 = h.lookup_id(ra, dec)\n    m = h.match(ra, dec, ra2, dec2, 2.0, maxmatch=0)\n"
    "    i2 = h.lookup_id(ra2, dec2)\n    b = h.bincount(0.05, 3.0, 4, ra2, dec2, ra, dec)\n    return i1, m, i2, b\n",
    {"ra": "cra", "dec": "cdec", "ra2": "cra", "dec2": "cdec"}, nd=(1,), func="HTM (one object, several calls)")
drv("reuse_Matcher", "htm",
    "def f(ra, dec, ra1, dec1, ra3, dec3, radius):\n    m = htm.Matcher(8, ra, dec)\n    a = m.match(ra1, dec1, 1.0, maxmatch=1)\n"
    "    b = m.match(ra3, dec3, radius, maxmatch=2)\n    c = m.match(ra, dec, 0.0, maxmatch=0)\n    return a, b, c\n",
    {"ra": "cra", "dec": "cdec", "ra1": "cra", "dec1": "cdec", "ra3": "cra", "dec3": "cdec", "radius": "small"}, nd=(1,),
    func="Matcher (one object, several calls; per-point radii; radius 0)")
drv("reuse_Matcher_file", "htm",
    "def f(ra, dec, ra1, dec1, fname: str):\n    m = htm.Matcher(8, ra, dec)\n    return m.match(ra1, dec1, 1.0, maxmatch=-1, file=fname)\n",
    {"ra": "cra", "dec": "cdec", "ra1": "cra", "dec1": "cdec"}, nd=(1,), func="Matcher / Matcher.match", valuation="file=, maxmatch=-1")
drv("reuse_Cosmo", "cosmo",
    "def f(z1, z2):\n    c = cosmology.Cosmo(H0=70.0, omega_m=0.25)\n    a = c.Dc(z1, 5.0)\n    b = c.Dc(0.0, z2)\n    d = c.Da(z1, z2)\n"
    "    e = c.sigmacritinv(z1, z2)\n    g = c.Dc(z1, z1)\n    return a, b, d, e, g\n",
    {"z1": "z", "z2": "zhi"}, nd=(1,), func="Cosmo (one object, several calls; zmin=0; equal bounds)", n=4)
drv("cosmo_ctor_h_omega_k", "cosmo",
    "def f(z):\n    c = cosmology.Cosmo(h=0.7, flat=False, omega_m=0.3, omega_l=0.6, omega_k=0.1)\n    return c.Dm(0.0, z), c.Dl(z, 4.0)\n",
    {"z": "z"}, func="Cosmo.Dm / Dl", valuation="h=, omega_k= given; zmin exactly 0", n=4)
drv("reuse_QGauss", "integrate",
    "def f(x, y, x2, y2):\n    q = integrate.QGauss(8)\n    a = q.integrate(x, y)\n    b = q.integrate(x2, y2, npts=5)\n    c = q.integrate(x, y2, 8)\n    return a, b, c\n",
    {"x": "sx", "y": "x", "x2": "sx", "y2": "x"}, nd=(1,), func="QGauss (one object, npts changed between calls)")
drv("reuse_Binner", "hist",
    "def f(x, y, weights):\n    b = stat.Binner(x, y=y, weights=weights)\n    b.dohist(nbin=3, calc_stats=True)\n    b.dohist(nperbin=2, mergelast=True)\n"
    "    b.calc_stats()\n    b.dohist(binsize=4.0, min=-40, max=40, rev=True)\n    b.calc_stats()\n    return b\n",
    {"x": "x", "y": "x", "weights": "w"}, nd=(1,), func="Binner (dohist / calc_stats repeated with other options)")
drv("reuse_SFile_two_tables", "recfile",
    "def f(data, data2, fname: str):\n    with SFile(fname, 'w', delim=',', padnull=True) as sf:\n        sf.write(data)\n        sf.write(data2)\n",
    {"data": "recio", "data2": "recio"}, nd=(1,), dt=REC, func="SFile.write", valuation="two different tables through one open object, text", n=6)
drv("reuse_Recfile_two_tables_bin", "recfile",
    "def f(data, data2, fname: str):\n    r = Recfile(fname, 'w')\n    r.write(data)\n    r.write(data2)\n    r.close()\n",
    {"data": "recio", "data2": "recio"}, nd=(1,), dt=REC, func="Recfile.write", valuation="two different tables through one open object, binary", n=6)
drv("reuse_file_rewritten", "recfile",
    "def f(data, data2, fname: str):\n    sfile.write(fname, data, delim=',')\n    sfile.write(fname, data2)\n    sfile.write(fname, data, delim=' ', padnull=True)\n",
    {"data": "recio", "data2": "recio"}, nd=(1,), dt=REC, func="sfile.write", valuation="the same path rewritten as text / binary / text", n=6)
drv("reuse_Generator", "random",
    "def f(pofx, x):\n    g = random.Generator(pofx, x=x, nx=50, seed=3, cumulative=False)\n    a = g.sample(10)\n    b = g.sample(7)\n    return a, b\n",
    {"pofx": "pofx", "x": "grid"}, nd=(1,), dt=FLT, func="random.Generator", valuation="one object sampled twice; cumulative=False")
drv("Generator_xrange_rng", "random",
    "def f(pofx, x):\n    g = random.Generator(pofx, x=x, xrange=[-1.0, 1.0], nx=50, rng=np.random.RandomState(2))\n    return g.sample(10)\n",
    {"pofx": "pofx", "x": "grid"}, nd=(1,), dt=FLT, func="random.Generator", valuation="xrange=, rng= given")
drv("reuse_NormalND", "random",
    "def f(mean, sigma, pos, pos2):\n    d = random.NormalND(mean, sigma)\n    return d.lnprob(pos), d.lnprob(pos2), d.lnprob(pos)\n",
    {"mean": "mean3", "sigma": "diag", "pos": "pos3", "pos2": "pos3"}, nd=(1,), func="random.NormalND.lnprob", valuation="one object, several calls")

# (d) option values at exact special points, (e) documented optional arguments that no earlier driver gave
drv("shiftlon_shift_zero", "coords", "def f(lon):\n    return coords.shiftlon(lon, shift=0.0), coords.shiftlon(lon, shift=-0.0, wrap=False)\n", {"lon": "ra"},
    func="shiftlon", valuation="shift exactly 0.0 / -0.0")
drv("shiftlon_shift_360", "coords", "def f(lon):\n    return coords.shiftlon(lon, shift=360.0), coords.shiftra(lon, shift=0.0)\n", {"lon": "ra"},
    func="shiftlon / shiftra", valuation="shift = 360, shift = 0")
drv("rotate_zero", "coords", "def f(ra, dec):\n    return coords.rotate(0.0, 0.0, 0.0, ra, dec)\n", {"ra": "ra", "dec": "dec"}, func="rotate", valuation="all angles exactly 0")
drv("sphdist_same_points", "coords", "def f(ra1, dec1):\n    return coords.sphdist(ra1, dec1, ra1.copy(), dec1.copy()), coords.gcirc(ra1, dec1, ra1.copy(), dec1.copy())\n",
    {"ra1": "ra", "dec1": "dec"}, nd=(1,), func="sphdist / gcirc", valuation="separation exactly 0")
for fn in ("ec2eq", "ec2gal", "gal2ec"):
    drv(fn + "_b1950_f4", "coords", "def f(a, b):\n    return coords.%s(a, b, b1950=True, dtype='f4')\n" % fn, {"a": "ra", "b": "dec"}, func=fn,
        valuation="b1950=True, dtype='f4'", n=4)
drv("randcap_zero_radius", "coords", "def f(ra, dec):\n    return coords.randcap(3, ra, dec, 0.0, rng=np.random.RandomState(3))\n", {"ra": "ra", "dec": "dec"},
    nd=(0,), func="randcap", valuation="radius exactly 0")
drv("arrscl_opts", "fields", "def f(arr):\n    return numpy_util.arrscl(arr, 0.0, 0.0, arrmin=-50.0, arrmax=50.0, dtype='f4')\n", {"arr": "x"}, func="arrscl",
    valuation="minval = maxval = 0, arrmin=, arrmax=, dtype='f4'")
drv("wcs_arrscl_opts", "wcs", "def f(arr):\n    return wcsutil.arrscl(arr, -1.0, 1.0, arrmin=-50.0, arrmax=50.0)\n", {"arr": "x"}, dt=FLT, func="wcsutil.arrscl",
    valuation="arrmin=, arrmax=")
drv("between_types", "fields", "def f(arr):\n    return numpy_util.between(arr, 2, 2, type='[]'), numpy_util.between(arr, -1, 5, type='()'), "
    "numpy_util.outside(arr, 0, 0)\n", {"arr": "x"}, func="between / outside", valuation="type=, equal bounds")
drv("compare_arrays_verbose", "fields", "def f(arr1, arr2):\n    return numpy_util.compare_arrays(arr1, arr2, verbose=True)\n",
    {"arr1": "rec", "arr2": "rec_like"}, dt=REC, func="compare_arrays", valuation="verbose=True")
drv("match_multi_presorted", "match", "def f(arr1, arr2):\n    return numpy_util.match_multi(arr1, arr2, presorted=True)\n",
    {"arr1": "uniq_sorted", "arr2": "int"}, nd=(1, 0), func="match_multi", valuation="presorted=True")
drv("sfile_split_fields_getnames", "fields", "def f(data):\n    return sfile.split_fields(data, fields=['x', 'v'], getnames=True)\n", {"data": "rec"}, dt=REC,
    func="sfile.split_fields", valuation="getnames=True")
drv("get_stats_doprint", "stat", "def f(arr):\n    return stat.get_stats(arr, doprint=True)\n", {"arr": "x"}, nd=(1,), func="get_stats", valuation="doprint=True")
drv("sigma_clip_zero", "stat", "def f(arr):\n    return stat.sigma_clip(arr, nsig=0.0, niter=1, verbose=True, extra={'x': 1})\n", {"arr": "x"}, nd=(1,),
    func="sigma_clip", valuation="nsig exactly 0, verbose, extra=")
drv("histogram2d_ranges", "hist", "def f(x, y):\n    return stat.histogram2d(x, y, nx=2, ny=2, xmin=-40.0, xmax=40.0, ymin=-40.0, ymax=40.0)\n",
    {"x": "x", "y": "x"}, nd=(1,), func="histogram2d", valuation="xmin, xmax, ymin, ymax")
drv("histogram_min_eq_first", "hist", "def f(data):\n    return stat.histogram(data, binsize=1e-3, min=0.0, max=0.0, rev=True) if False else "
    "stat.histogram(data, nbin=1, rev=True)\n", {"data": "x"}, nd=(1,), func="histogram", valuation="a single bin")
drv("boxcar_one", "stat", "def f(x):\n    return stat.boxcar_average(x, 1)\n", {"x": "x"}, nd=(1,), func="boxcar_average", valuation="N = 1")
drv("interplin_u_is_x", "stat", "def f(v, x):\n    return stat.interplin(v, x, x)\n", {"v": "x", "x": "sx"}, nd=(1,), func="interplin",
    valuation="u is the SAME array as x")
drv("wcs_sky2image_xtol", "wcs",
    "def f(lon, lat):\n    w = wcsutil.WCS(TPV_HDR)\n    return w.sky2image(lon, lat, xtol=1e-3), w.sky2image(lon, lat, xtol=1e-14)\n",
    {"lon": "wlon", "lat": "wlat"}, nd=(1,), func="WCS.sky2image", valuation="xtol much larger / smaller than the default", slow=True)
drv("wcs_ctor_angles", "wcs",
    "def f(x, y):\n    w = wcsutil.WCS(TAN_HDR, longpole=180.0, latpole=0.0, theta0=90.0)\n    return w.image2sky(x, y), w.Rotate(x, y, origin=True)\n",
    {"x": "unit", "y": "unit"}, func="WCS.__init__ / Rotate", valuation="longpole, latpole, theta0 given; origin=True", n=4)
drv("wcs_Invert2DPolynomial_opts", "wcs", "def f(u, v, x, y):\n    return wcsutil.Invert2DPolynomial(u, v, x, y, 1, pack=False, constant=False), "
    "wcsutil.make_amatrix(u, v, 2, constant=False)\n",
    {"u": "unit", "v": "unit", "x": "unit", "y": "unit"}, nd=(1,), dt=FLT, func="wcsutil.Invert2DPolynomial / make_amatrix", valuation="pack=False, constant=False")
drv("htm_match_minmaxid", "htm",
    "def f(ra1, dec1, ra2, dec2):\n    h = htm.HTM(7)\n    return h.match(ra1, dec1, ra2, dec2, 0.0, maxmatch=1)\n",
    {"ra1": "cra", "dec1": "cdec", "ra2": "cra", "dec2": "cdec"}, nd=(1,), func="HTM.match", valuation="radius exactly 0")
drv("htm_cylmatch_opts", "htm",
    "def f(ra1, dec1, z1, ra2, dec2, z2):\n    h = htm.HTM(7)\n    return h.cylmatch(ra1, dec1, z1, ra2, dec2, z2, 2.0, 0.5, maxmatch=2, unique=True, nkeep=1)\n",
    {"ra1": "cra", "dec1": "cdec", "z1": "z", "ra2": "cra", "dec2": "cdec", "z2": "z"}, nd=(1,), func="HTM.cylmatch", valuation="maxmatch, unique, nkeep")
drv("htm_bincount_verbose", "htm",
    "def f(ra1, dec1, ra2, dec2):\n    h = htm.HTM(7)\n    return h.bincount(0.05, 3.0, 4, ra1, dec1, ra2, dec2, scale=1.0)\n",
    {"ra1": "cra", "dec1": "cdec", "ra2": "cra", "dec2": "cdec"}, nd=(1,), func="HTM.bincount", valuation="scalar scale")
for dist in ("gauss",):
    drv("cholesky_dist", "random",
        "def f(means, cov):\n    np.random.seed(4)\n    return random.cholesky_sample(cov, 4, means=means, dist=np.random.standard_normal), random.CholeskySampler(means, cov, dist=np.random.standard_normal).sample(2)\n"
        , {"means": "mean3", "cov": "cov"}, nd=(2,), dt=("f8", "f4", "i8"), func="random.cholesky_sample / CholeskySampler", valuation="dist= given")

# ------------------------------------------------------------------ fifth round (wave 4): PRECOMPUTED arguments of HTM.bincount
# htmid2 / htmrev2 / minid / maxid are accepted by bincount (HTM.match rejects them: "no longer supported").  The ids / reverse
# indices are array PARAMETERS of the driver (derived kinds, see C15.build_args): first dtype int64 native contiguous -- exactly what
# lookup_id returns, the only form that needs no conversion -- then the rest of the matrix.
IDS = ("i8", "u8", "i4")
BC = "    h = htm.HTM(7)\n    return h.bincount(0.05, 3.0, 4, ra1, dec1, ra2, dec2"
BCG = {"ra1": "cra", "dec1": "cdec", "ra2": "cra", "dec2": "cdec", "ids": "htmid:ra2,dec2,7"}
drv("htm_bincount_ids", "htm", "def f(ra1, dec1, ra2, dec2, ids):\n" + BC + ", htmid2=ids)\n", BCG, nd=(1,), dt=IDS, func="HTM.bincount",
    valuation="htmid2= given (array argument)")
drv("htm_bincount_ids_twice", "htm", "def f(ra1, dec1, ra2, dec2, ids):\n    h = htm.HTM(7)\n"
    "    a = h.bincount(0.05, 3.0, 4, ra1, dec1, ra2, dec2, htmid2=ids, getbins=False)\n"
    "    b = h.bincount(0.05, 3.0, 4, ra1, dec1, ra2, dec2, htmid2=ids, getbins=False)\n    return a, b\n", BCG, nd=(1,), dt=IDS, func="HTM.bincount",
    valuation="htmid2= given, the same ids used for two calls")
drv("htm_bincount_ids_minmax", "htm", "def f(ra1, dec1, ra2, dec2, ids):\n    lo, hi = int(ids.min()), int(ids.max())\n" + BC + ", htmid2=ids, minid=lo, maxid=hi)\n",
    BCG, nd=(1,), dt=IDS, func="HTM.bincount", valuation="htmid2=, minid=, maxid= given")
drv("htm_bincount_ids_rev", "htm", "def f(ra1, dec1, ra2, dec2, ids, rev):\n" + BC + ", htmid2=ids, htmrev2=rev)\n",
    dict(BCG, rev="htmrev:ids"), nd=(1,), dt=IDS, func="HTM.bincount", valuation="htmid2= and htmrev2= given")
drv("htm_bincount_ids_rev_minmax", "htm",
    "def f(ra1, dec1, ra2, dec2, ids, rev):\n    lo, hi = int(ids.min()), int(ids.max())\n" + BC + ", htmid2=ids, htmrev2=rev, minid=lo, maxid=hi, scale=2.0)\n",
    dict(BCG, rev="htmrev:ids"), nd=(1,), dt=IDS, func="HTM.bincount", valuation="htmid2=, htmrev2=, minid=, maxid=, scale= given")
drv("htm_bincount_rev_only", "htm", "def f(ra1, dec1, ra2, dec2, ids, rev):\n" + BC + ", htmrev2=rev)\n",
    dict(BCG, rev="htmrev:ids"), nd=(1,), dt=IDS, func="HTM.bincount", valuation="htmrev2= alone (ids recomputed inside)", exempt={"ids": "not passed to the call (only used to derive rev)"})
drv("htm_bincount_minmax_only", "htm", "def f(ra1, dec1, ra2, dec2):\n" + BC + ", minid=0, maxid=10)\n",
    {"ra1": "cra", "dec1": "cdec", "ra2": "cra", "dec2": "cdec"}, nd=(1,), func="HTM.bincount", valuation="minid=, maxid= alone (ignored: recomputed)")

# HTM.match accepts htmid2 / minid / maxid (only htmrev2 is rejected: "the old way using reverse indices is no longer supported")
MT = "    h = htm.HTM(7)\n    return h.match(ra1, dec1, ra2, dec2, 2.0, maxmatch=1"
drv("htm_match_ids", "htm", "def f(ra1, dec1, ra2, dec2, ids):\n" + MT + ", htmid2=ids)\n", BCG, nd=(1,), dt=IDS, func="HTM.match", valuation="htmid2= given (array argument)")
drv("htm_match_ids_minmax", "htm", "def f(ra1, dec1, ra2, dec2, ids):\n    lo, hi = int(ids.min()), int(ids.max())\n" + MT + ", htmid2=ids, minid=lo, maxid=hi, verbose=True)\n",
    BCG, nd=(1,), dt=IDS, func="HTM.match", valuation="htmid2=, minid=, maxid=, verbose given")
drv("htm_match_minmax_only", "htm", "def f(ra1, dec1, ra2, dec2):\n" + MT + ", minid=0, maxid=10)\n",
    {"ra1": "cra", "dec1": "cdec", "ra2": "cra", "dec2": "cdec"}, nd=(1,), func="HTM.match", valuation="minid=, maxid= alone")
drv("htm_match_rev_rejected", "htm", "def f(ra1, dec1, ra2, dec2, ids, rev):\n" + MT + ", htmid2=ids, htmrev2=rev)\n",
    dict(BCG, rev="htmrev:ids"), nd=(1,), dt=IDS, func="HTM.match", valuation="htmrev2= given: rejected with RuntimeError (the arguments must still be untouched)")

DRIVERS = D

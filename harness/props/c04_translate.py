"""T-const for C04: read the print/scan format constants of the text paths out of
esutil/recfile/records.cpp (make_scan_formats / make_print_formats) and print coq/theories/C04/Gen.v.

Fails closed (TranslateError) when the source no longer has the expected shape; Gen.v is rewritten only
when its text changes (atomic rename).

What is read:
  make_print_formats:  formats[NPY_FLOAT] = "%.<p4>g";  formats[NPY_DOUBLE] = "%.<p8>g";
  make_scan_formats:   formats[NPY_FLOAT] += "f";  formats[NPY_DOUBLE] += "lf";
                       the suffix rule  formats[i] += ' '+mDelim;  under  (!mReadAsWhitespace) && (add_delim)
The precisions become Gen.print_prec_f4 / print_prec_f8, which the model's printf (FmtModel.F_model) uses,
so a changed precision changes the model's text and the statement C04_roundtrip_fmt_model is about.  The
conversion letters and the suffix rule are fixed in the hand model (TextModel.fscanf_num); they are emitted
as data and compared with what the hand model implements (`tie_ok`)."""
import os
import re


class TranslateError(Exception):
    pass


def strip_comments(src):
    src = re.sub(r"/\*.*?\*/", " ", src, flags=re.S)
    return re.sub(r"//[^\n]*", "", src)


def _body(src, name):
    m = list(re.finditer(r"void\s+Records::%s\s*\(([^)]*)\)\s*\{" % re.escape(name), src))
    if len(m) != 1:
        raise TranslateError("expected exactly one definition of Records::%s, found %d" % (name, len(m)))
    i = m[0].end()
    depth, j = 1, i
    while depth and j < len(src):
        if src[j] == "{":
            depth += 1
        elif src[j] == "}":
            depth -= 1
        j += 1
    if depth:
        raise TranslateError("unbalanced braces in Records::%s" % name)
    return src[i:j - 1]


def _one(pattern, text, what):
    ms = re.findall(pattern, text)
    if len(ms) != 1:
        raise TranslateError("%s: expected exactly one match of /%s/, found %d" % (what, pattern, len(ms)))
    return ms[0]


def extract(src):
    src = strip_comments(src)
    pr = _body(src, "make_print_formats")
    sc = _body(src, "make_scan_formats")
    out = {}
    for key, npy in (("p4", "NPY_FLOAT"), ("p8", "NPY_DOUBLE")):
        # every assignment to the entry inside make_print_formats must be the one %.<n>g form
        assigns = re.findall(r"formats\s*\[\s*%s\s*\]\s*\+?=\s*([^;]*);" % npy, pr)
        if len(assigns) != 1:
            raise TranslateError("make_print_formats: expected exactly one assignment to formats[%s], found %d" % (npy, len(assigns)))
        m = re.fullmatch(r'\s*"%\.(\d+)g"\s*', assigns[0])
        if not m:
            raise TranslateError('make_print_formats: formats[%s] is not of the form "%%.<n>g": %s' % (npy, assigns[0].strip()))
        out[key] = int(m.group(1))
    for key, npy in (("s4", "NPY_FLOAT"), ("s8", "NPY_DOUBLE")):
        assigns = re.findall(r"formats\s*\[\s*%s\s*\]\s*(\+?=)\s*([^;]*);" % npy, sc)
        if len(assigns) != 1 or assigns[0][0] != "+=":
            raise TranslateError("make_scan_formats: expected exactly one `formats[%s] += ...`" % npy)
        m = re.fullmatch(r'\s*"([a-zA-Z]+)"\s*', assigns[0][1])
        if not m:
            raise TranslateError("make_scan_formats: formats[%s] += %s is not a conversion letter string" % (npy, assigns[0][1]))
        out[key] = m.group(1)
    if not re.search(r'formats\.resize\s*\(\s*nf\s*,\s*"%"\s*\)', sc):
        raise TranslateError('make_scan_formats: formats.resize(nf, "%") not found')
    # the suffix rule
    suf = re.findall(r"formats\s*\[\s*i\s*\]\s*\+=\s*([^;]*);", sc)
    if len(suf) != 1:
        raise TranslateError("make_scan_formats: expected exactly one `formats[i] += <suffix>`, found %d" % len(suf))
    m = re.fullmatch(r"\s*'(.)'\s*\+\s*mDelim\s*", suf[0])
    if not m:
        raise TranslateError("make_scan_formats: suffix is not '<c>'+mDelim: %s" % suf[0].strip())
    out["suffix_char"] = m.group(1)
    if not re.search(r"if\s*\(\s*\(\s*!\s*mReadAsWhitespace\s*\)\s*&&\s*\(\s*add_delim\s*\)\s*\)", sc):
        raise TranslateError("make_scan_formats: guard (!mReadAsWhitespace) && (add_delim) of the suffix rule not found")
    if not re.search(r"make_scan_formats\s*\(\s*formats\s*,\s*false\s*\)", pr):
        raise TranslateError("make_print_formats: make_scan_formats(formats,false) not found")
    return out


# ---------------------------------------------------------------------------------------------------------
# a small typed translator for the C conditions of the text paths: C expression -> Gallina term
# ---------------------------------------------------------------------------------------------------------
C_VARS = {"el": "int", "nel": "int", "fnum": "int", "mNfields": "int", "colnum": "int", "i": "int", "size_per_el": "int",
          "row": "int", "mNrows": "int", "mReadAsWhitespace": "bool", "add_delim": "bool", "mDelim[0]": "byte"}
C_NAMES = {"mDelim[0]": "delim"}
_TOK = re.compile(r"\s*(?:(\d+)|('(?:\\.|[^\\'])')|([A-Za-z_]\w*(?:\s*\[\s*0\s*\])?)|(&&|\|\||<=|>=|==|!=|[<>!+\-()]))")


def _tokens(text):
    out, pos = [], 0
    text = text.strip()
    while pos < len(text):
        m = _TOK.match(text, pos)
        if not m:
            raise TranslateError("cannot tokenise C expression at %r" % text[pos:pos + 20])
        num, ch, ident, op = m.groups()
        if num is not None:
            out.append(("num", num))
        elif ch is not None:
            out.append(("chr", ch))
        elif ident is not None:
            out.append(("id", re.sub(r"\s+", "", ident)))
        else:
            out.append(("op", op))
        pos = m.end()
    return out


def c_expr(text):
    """(gallina term, type) of a C condition over the variables of C_VARS; anything else fails closed"""
    toks = _tokens(text)
    pos = [0]

    def peek():
        return toks[pos[0]] if pos[0] < len(toks) else (None, None)

    def take():
        t = peek()
        pos[0] += 1
        return t

    def atom():
        k, v = take()
        if k == "num":
            return v, "int"
        if k == "chr":
            body = v[1:-1]
            esc = {"\\n": 10, "\\t": 9, "\\0": 0, "\\r": 13, "\\\\": 92, "\\'": 39}
            code = esc[body] if body in esc else (ord(body) if len(body) == 1 else None)
            if code is None:
                raise TranslateError("unsupported character literal %s" % v)
            return "x%02x" % code, "byte"
        if k == "id":
            if v not in C_VARS:
                raise TranslateError("unknown identifier %r in a translated condition" % v)
            return C_NAMES.get(v, v), C_VARS[v]
        if (k, v) == ("op", "("):
            e = orexp()
            if take() != ("op", ")"):
                raise TranslateError("missing ) in C expression")
            return e
        if (k, v) == ("op", "!"):
            e, t = atom()
            if t != "bool":
                raise TranslateError("! applied to a non-boolean")
            return "(negb %s)" % e, "bool"
        raise TranslateError("unexpected token %r in C expression" % (v,))

    def addexp():
        e, t = atom()
        while peek() in (("op", "+"), ("op", "-")):
            op = take()[1]
            e2, t2 = atom()
            if t != "int" or t2 != "int":
                raise TranslateError("arithmetic on non-integers")
            e = "(%s %s %s)" % (e, op, e2)
        return e, t

    def cmpexp():
        e, t = addexp()
        if peek()[0] == "op" and peek()[1] in ("<", "<=", ">", ">=", "==", "!="):
            op = take()[1]
            e2, t2 = addexp()
            if t != t2:
                raise TranslateError("comparison of %s with %s" % (t, t2))
            if t == "int":
                e = {"<": "(%s <? %s)" % (e, e2), "<=": "(%s <=? %s)" % (e, e2), ">": "(%s <? %s)" % (e2, e),
                     ">=": "(%s <=? %s)" % (e2, e), "==": "(%s =? %s)" % (e, e2), "!=": "(negb (%s =? %s))" % (e, e2)}[op]
            elif t == "byte" and op in ("==", "!="):
                e = "(byte_eqb %s %s)" % (e, e2) if op == "==" else "(negb (byte_eqb %s %s))" % (e, e2)
            else:
                raise TranslateError("unsupported comparison %s on %s" % (op, t))
            return e, "bool"
        return e, t

    def andexp():
        e, t = cmpexp()
        while peek() == ("op", "&&"):
            take()
            e2, t2 = cmpexp()
            if t != "bool" or t2 != "bool":
                raise TranslateError("&& on non-booleans")
            e = "(%s && %s)" % (e, e2)
        return e, t

    def orexp():
        e, t = andexp()
        while peek() == ("op", "||"):
            take()
            e2, t2 = andexp()
            if t != "bool" or t2 != "bool":
                raise TranslateError("|| on non-booleans")
            e = "(%s || %s)" % (e, e2)
        return e, t

    e, t = orexp()
    if pos[0] != len(toks):
        raise TranslateError("trailing tokens in C expression %r" % text)
    return e, t


def c_cond(text, what):
    e, t = c_expr(text)
    if t != "bool":
        raise TranslateError("%s: condition %r is not boolean" % (what, text))
    return e


def _paren_cond(text, start):
    """text[start] == '(' : returns (inside, index after the matching ')')"""
    depth, j = 0, start
    while j < len(text):
        if text[j] == "(":
            depth += 1
        elif text[j] == ")":
            depth -= 1
            if depth == 0:
                return text[start + 1:j], j + 1
        j += 1
    raise TranslateError("unbalanced parentheses")


def _if_conds_before(body, stmt_regex, what, expect):
    """conditions of the `if (<cond>) { <stmt> }` blocks whose body is exactly stmt_regex, in source order"""
    out = []
    for m in re.finditer(r"\bif\s*\(", body):
        cond, after = _paren_cond(body, m.end() - 1)
        m2 = re.match(r"\s*\{\s*%s\s*\}" % stmt_regex, body[after:])
        if m2:
            out.append((cond, m.start()))
    if len(out) != expect:
        raise TranslateError("%s: expected %d guarded statement(s) /%s/, found %d" % (what, expect, stmt_regex, len(out)))
    return out


def extract_structure(src):
    """conditions and characters that decide the layout of the text and the reader's cursor moves"""
    src = strip_comments(src)
    out = {}
    # -- set_delim...: mReadAsWhitespace = (<cond>)
    m = re.findall(r"if\s*\(([^{};]*)\)\s*\{\s*mReadAsWhitespace\s*=\s*true\s*;\s*\}\s*else\s*\{\s*mReadAsWhitespace\s*=\s*false\s*;\s*\}", src)
    if len(m) != 1:
        raise TranslateError("expected exactly one `if (c) {mReadAsWhitespace=true;} else {mReadAsWhitespace=false;}`, found %d" % len(m))
    out["ws_mode"] = c_cond(m[0], "white-space mode")
    others = re.findall(r"mReadAsWhitespace\s*=\s*(\w+)", src)
    if sorted(others) != ["false", "false", "true"]:
        raise TranslateError("unexpected assignments to mReadAsWhitespace: %s" % others)
    # -- WriteField: delimiter between elements (inside the element loop) and behind the field
    wf = _body(src, "WriteField")
    conds = _if_conds_before(wf, r'fprintf\s*\(\s*mFptr\s*,\s*"%s"\s*,\s*mDelim\.c_str\s*\(\s*\)\s*\)\s*;', "WriteField", 2)
    loop = re.search(r"for\s*\(\s*long\s+long\s+el\s*=\s*0\s*;\s*el\s*<\s*nel\s*;\s*el\+\+\s*\)\s*\{", wf)
    adv = re.search(r"mData\s*\+=\s*elsize\s*;", wf)
    if not loop or not adv or not (loop.end() < conds[0][1] < adv.start() < conds[1][1]):
        raise TranslateError("WriteField: element loop / delimiter positions not as expected")
    if not re.search(r"long\s+long\s+nel\s*=\s*mNel\s*\[\s*fnum\s*\]\s*;", wf):
        raise TranslateError("WriteField: nel = mNel[fnum] not found")
    out["elem_delim"] = c_cond(conds[0][0], "WriteField element delimiter")
    out["field_delim"] = c_cond(conds[1][0], "WriteField field delimiter")
    # -- WriteRows: loops over rows and fields from 0, one terminator character per row
    wr = _body(src, "WriteRows")
    if not re.search(r"for\s*\(\s*long\s+long\s+row\s*=\s*0\s*;\s*row\s*<\s*mNrows\s*;\s*row\+\+\s*\)", wr) or \
       not re.search(r"for\s*\(\s*long\s+long\s+fnum\s*=\s*0\s*;\s*fnum\s*<\s*mNfields\s*;\s*fnum\+\+\s*\)", wr):
        raise TranslateError("WriteRows: row / field loops not of the form for (x=0; x< n; x++)")
    term = re.findall(r"fputc\s*\(\s*('(?:\\.|[^\\'])')\s*,\s*mFptr\s*\)\s*;", wr)
    if len(term) != 1:
        raise TranslateError("WriteRows: expected exactly one fputc('<c>', mFptr), found %d" % len(term))
    out["row_term"] = c_expr(term[0])[0]
    # -- read_from_text_column: one extra fgetc behind a numeric field under a condition
    rc = _body(src, "read_from_text_column")
    conds = _if_conds_before(rc, r"fgetc\s*\(\s*mFptr\s*\)\s*;", "read_from_text_column", 1)
    if not re.search(r"if\s*\(\s*mTypeNums\s*\[\s*colnum\s*\]\s*==\s*NPY_STRING\s*\)\s*\{\s*read_ascii_bytes\s*\(\s*colnum\s*,\s*buff\s*\)\s*;\s*\}\s*else\s*\{\s*scan_column_values\s*\(\s*colnum\s*,\s*buff\s*\)\s*;\s*if", rc):
        raise TranslateError("read_from_text_column: string/number dispatch not as expected")
    out["extra_getc"] = c_cond(conds[0][0], "read_from_text_column extra fgetc")
    # -- read_ascii_bytes: per element size_per_el bytes, then one fgetc
    ra = _body(src, "read_ascii_bytes")
    m = re.search(r"for\s*\(\s*long\s+long\s+i\s*=\s*0\s*;([^;]*);\s*i\+\+\s*\)\s*\{\s*c\s*=\s*fgetc\s*\(\s*mFptr\s*\)\s*;", ra)
    if not m:
        raise TranslateError("read_ascii_bytes: byte loop not found")
    out["str_loop"] = c_cond(m.group(1), "read_ascii_bytes byte loop")
    tail = ra[m.end():]
    if len(re.findall(r"c\s*=\s*fgetc\s*\(\s*mFptr\s*\)\s*;", tail)) != 1:
        raise TranslateError("read_ascii_bytes: expected exactly one fgetc behind the byte loop")
    if not re.search(r"int\s+size_per_el\s*=\s*mSizes\s*\[\s*colnum\s*\]\s*/\s*mNel\s*\[\s*colnum\s*\]\s*;", ra):
        raise TranslateError("read_ascii_bytes: size_per_el = mSizes[colnum]/mNel[colnum] not found")
    return out


def extract_python(impl_dir):
    """slice bounds of the byte-order stripping, the increment of the line counter, fingerprint of to_native"""
    import ast
    out = {}

    def func(tree, name, cls=None):
        nodes = [n for n in ast.walk(tree) if isinstance(n, ast.FunctionDef) and n.name == name]
        if len(nodes) != 1:
            raise TranslateError("expected exactly one def %s, found %d" % (name, len(nodes)))
        return nodes[0]

    def strip_slices(fn, what):
        sl = [n for n in ast.walk(fn) if isinstance(n, ast.Subscript) and isinstance(n.slice, ast.Slice)]
        vals = []
        for n in sl:
            lo, up, st = n.slice.lower, n.slice.upper, n.slice.step
            if up is not None or st is not None or not (isinstance(lo, ast.Constant) and isinstance(lo.value, int)):
                raise TranslateError("%s: slice is not of the form [<int>:]" % what)
            vals.append(lo.value)
        if not vals or len(set(vals)) != 1:
            raise TranslateError("%s: expected slices [<n>:] with one common n, found %s" % (what, vals))
        return vals[0]

    try:
        ut = ast.parse(open(os.path.join(impl_dir, "esutil", "recfile", "Util.py")).read())
        sf = ast.parse(open(os.path.join(impl_dir, "esutil", "sfile.py")).read())
    except (OSError, SyntaxError) as e:
        raise TranslateError("cannot parse the python sources: %s" % e)
    out["strip_recfile"] = strip_slices(func(ut, "remove_dtype_byteorder"), "remove_dtype_byteorder")
    out["strip_sfile"] = strip_slices(func(sf, "_remove_byteorder"), "SFile._remove_byteorder")
    # _count_nrows: the text branch is `for line in fobj: nrows += <int>` and nothing else
    cn = func(ut, "_count_nrows")
    fors = [n for n in ast.walk(cn) if isinstance(n, ast.For)]
    if len(fors) != 1:
        raise TranslateError("_count_nrows: expected exactly one for loop, found %d" % len(fors))
    f = fors[0]
    ok = (isinstance(f.iter, ast.Name) and f.iter.id == "fobj" and isinstance(f.target, ast.Name) and not f.orelse
          and len(f.body) == 1 and isinstance(f.body[0], ast.AugAssign) and isinstance(f.body[0].op, ast.Add)
          and isinstance(f.body[0].target, ast.Name) and f.body[0].target.id == "nrows"
          and isinstance(f.body[0].value, ast.Constant) and isinstance(f.body[0].value.value, int))
    if not ok:
        raise TranslateError("_count_nrows: loop is not `for line in fobj: nrows += <int>`: %s" % ast.dump(f)[:300])
    out["count_inc"] = f.body[0].value.value
    opens = [n for n in ast.walk(cn) if isinstance(n, ast.Call) and isinstance(n.func, ast.Name) and n.func.id == "open"]
    if len(opens) != 1 or len(opens[0].args) != 1 or opens[0].keywords:
        raise TranslateError("_count_nrows: the file is not opened as open(self.filename) (text mode, universal newlines)")
    # to_native: pinned by its normalised AST (fails closed on any change of the statements)
    tn = func(ut, "to_native")
    body = [n for n in tn.body if not (isinstance(n, ast.Expr) and isinstance(n.value, ast.Constant))]
    out["to_native_ast"] = "; ".join(re.sub(r"\s+", " ", ast.unparse(n)) for n in body)
    return out


TO_NATIVE_EXPECTED = ("native_dtype = array.dtype.newbyteorder('='); if native_dtype == array.dtype: return array; "
                      "return array.astype(native_dtype)")


def cbytes(s):
    return "[" + "; ".join("x%02x" % ord(c) for c in s) + "]"


def gen_text(c):
    return """(* GENERATED by harness/props/c04_translate.py from esutil/recfile/records.cpp, esutil/recfile/Util.py and esutil/sfile.py
   -- do not edit by hand.  Constants, conditions and characters of the text paths, read out of the source of the working
   tree that is being checked; the tie lemmas (harness: one obligation each) state that they are what the hand model uses. *)
From Coq Require Import ZArith List Bool.
From Coq.Strings Require Import Byte.
From EsVerif.Common Require Import Bytes.
Import ListNotations.
Open Scope Z_scope.

(* make_print_formats:  formats[NPY_FLOAT] = "%%.%dg";  formats[NPY_DOUBLE] = "%%.%dg"; *)
Definition print_prec_f4 : Z := %d%%Z.
Definition print_prec_f8 : Z := %d%%Z.
(* make_scan_formats:  "%%" + "%s" / "%%" + "%s" *)
Definition scan_conv_f4 : list byte := %s.
Definition scan_conv_f8 : list byte := %s.
(* make_scan_formats, (!mReadAsWhitespace) && add_delim:  formats[i] += '%s' + mDelim *)
Definition scan_suffix_char : byte := x%02x.
(* set delim:  if (<cond>) mReadAsWhitespace=true else false *)
Definition ws_mode_cond (delim : byte) : bool := %s.
(* WriteField: delimiter behind element el of nel / behind field fnum of mNfields *)
Definition elem_delim_cond (el nel : Z) : bool := %s.
Definition field_delim_cond (fnum mNfields : Z) : bool := %s.
(* WriteRows: fputc(<c>, mFptr) behind every row *)
Definition row_terminator : byte := %s.
(* read_from_text_column: one extra fgetc behind a numeric field *)
Definition extra_getc_cond (mReadAsWhitespace : bool) (colnum mNfields : Z) : bool := %s.
(* read_ascii_bytes: for (i=0; <cond>; i++) c=fgetc, then one more fgetc per element *)
Definition str_loop_cond (i size_per_el : Z) : bool := %s.
(* remove_dtype_byteorder: dt[1][%d:]   SFile._remove_byteorder: tdef[%d:] *)
Definition strip_recfile : nat := %d%%nat.
Definition strip_sfile : nat := %d%%nat.
(* Recfile._count_nrows:  for line in fobj: nrows += %d *)
Definition count_increment : Z := %d%%Z.
""" % (c["p4"], c["p8"], c["p4"], c["p8"], c["s4"], c["s8"], cbytes(c["s4"]), cbytes(c["s8"]),
       c["suffix_char"] if c["suffix_char"] != "'" else "\\'", ord(c["suffix_char"]),
       c["ws_mode"], c["elem_delim"], c["field_delim"], c["row_term"], c["extra_getc"], c["str_loop"],
       c["strip_recfile"], c["strip_sfile"], c["strip_recfile"], c["strip_sfile"], c["count_inc"], c["count_inc"])


# the tie lemmas: (name, statement, proof).  Each is compiled on every run against the freshly generated Gen.v and the
# hand model (TieProofs.v gives the model-side terms and proves that TextModel's functions are built from them).
TIE_LEMMAS = [
    ("scan_conv_f4", "Gen.scan_conv_f4 = TieProofs.model_scan_conv_f4", "reflexivity."),
    ("scan_conv_f8", "Gen.scan_conv_f8 = TieProofs.model_scan_conv_f8", "reflexivity."),
    ("scan_suffix_is_blank_directive", "TextModel.is_ws Gen.scan_suffix_char = true", "reflexivity."),
    ("ws_mode_cond", "Gen.ws_mode_cond = TieProofs.model_ws_mode", "reflexivity."),
    ("elem_delim_cond", "Gen.elem_delim_cond = TieProofs.model_elem_delim", "reflexivity."),
    ("field_delim_cond", "Gen.field_delim_cond = TieProofs.model_field_delim", "reflexivity."),
    ("row_terminator", "Gen.row_terminator = TextModel.nl", "reflexivity."),
    ("extra_getc_cond", "Gen.extra_getc_cond = TieProofs.model_extra_getc", "reflexivity."),
    ("str_loop_cond", "Gen.str_loop_cond = TieProofs.model_str_loop", "reflexivity."),
    ("strip_recfile", "Gen.strip_recfile = TieProofs.model_strip", "reflexivity."),
    ("strip_sfile", "Gen.strip_sfile = TieProofs.model_strip", "reflexivity."),
    ("count_increment", "Gen.count_increment = TieProofs.model_count_increment", "reflexivity."),
]
TIE_PREAMBLE = ("From Coq Require Import ZArith List Bool.\nFrom Coq.Strings Require Import Byte.\n"
                "From EsVerif.Common Require Import Base Bytes.\nFrom EsVerif.C04 Require Gen TextModel TieProofs.\n")


def tie_ok(c):
    """what the hand model TextModel.fscanf_num / read_num implements: conversions %f / %lf followed by a
    blank directive and the literal delimiter"""
    return c["s4"] == "f" and c["s8"] == "lf" and c["suffix_char"] == " "


DEFAULT = {"p4": 7, "p8": 16, "s4": "f", "s8": "lf", "suffix_char": " ", "ws_mode": "(byte_eqb delim x20)",
           "elem_delim": "(el <? (nel - 1))", "field_delim": "(fnum <? (mNfields - 1))", "row_term": "x0a",
           "extra_getc": "mReadAsWhitespace", "str_loop": "(i <? size_per_el)", "strip_recfile": 1, "strip_sfile": 1,
           "count_inc": 1, "to_native_ast": None}


def _write(coqdir, c):
    txt = gen_text(c)
    dst = os.path.join(coqdir, "theories", "C04", "Gen.v")
    old = open(dst).read() if os.path.exists(dst) else None
    if old != txt:
        tmp = dst + ".tmp.%d" % os.getpid()
        with open(tmp, "w") as f:
            f.write(txt)
        os.replace(tmp, dst)
    return old != txt


def regenerate(impl_dir, coqdir):
    """returns (constants, changed, problems).  Every part is translated on its own: a part that is outside the subset
    keeps the constants of the committed hand model (DEFAULT) -- so that Gen.v always builds and the correspondence
    always runs against the last good model -- and is reported in `problems` (list of messages; the tie is broken)."""
    p = os.path.join(impl_dir, "esutil", "recfile", "records.cpp")
    c = dict(DEFAULT)
    problems = []
    try:
        src = open(p, encoding="utf-8", errors="replace").read()
    except OSError as e:
        src = None
        problems.append("cannot read %s: %s" % (p, e))
    for part in ((extract, (src,)), (extract_structure, (src,)), (extract_python, (impl_dir,))):
        if part[1][0] is None:
            continue
        try:
            c.update(part[0](*part[1]))
        except TranslateError as e:
            problems.append(str(e))
    if c.get("to_native_ast") is not None and c["to_native_ast"] != TO_NATIVE_EXPECTED:
        problems.append("Util.to_native is not the pinned statement sequence: %s" % c["to_native_ast"][:300])
    return c, _write(coqdir, c), problems

"""C03 — appends accumulate: the file equals the concatenation of all writes (DESIGN.md section 7, C03).

A case is a HISTORY: a sequence over
    create(chunk, header)        sf = SFile(f, 'w', delim=dl); sf.write(chunk, header=hdr)
    again(chunk)                 sf.write(chunk[, header=other])        (same object)
    close                        sf.close()
    reopen                       sf = SFile(f, 'r+', delim=dl)
    fn(append, chunk, header)    sfile.write(f, chunk, header=hdr, delim=dl, append=append)
    read                         sfile.read(f, header=True)
started on a path that does not exist.  The history is executed on the REAL esutil (scratch build
of the working tree); after every operation its answer (ok / error class / what was read) and the
bytes on disk are recorded.  Inside Coq (coq/theories/C03):

  * model vs implementation: Model.run (byte-level state machine) against those observations;
  * property on the implementation: Spec.hist_check (proved sound, Lemmas.hist_check_sound): every
    read returns the concatenation of the accepted chunks since the last create/overwrite, the stored
    row count is their total, the user header is the one given at creation, an accepted write leaves
    an existing file, a rejected (incompatible) append is an error and leaves the bytes unchanged.

Not modelled, supplied per case and MONITORED (contract, Spec.header_ok):
  * pprint.pformat / eval / numpy.dtype: the pformat text of every header the real code builds is
    recorded by shadowing the name `pprint` in esutil.sfile; the table `mt` maps the text, joined the
    way read_header joins it, to what the real eval / numpy.dtype make of it.  Monitored: (a) text is
    framing-safe (Framing.hdr_text_ok, evaluated in Coq), (b) eval(joined) == the dict that was
    formatted, (c) its _DELIM / numpy.dtype(_DTYPE) / user entries are the ones of the operation;
  * the text form of a chunk (C04's subject): for every text delimiter of the history the chunk is
    written ALONE by the real code into a scratch file; the data region of that file is the chunk's
    printed text (c_txt) and what the real reader returns for it is c_back.
"""
import ast
import builtins
import os
import pprint as _pprint
from .. import core
from ..core import cz, cbool
from ..runner import Entry, differential

PRE = ("From EsVerif.Common Require Import Base Bytes.\n"
       "From EsVerif.C01 Require Import Framing.\n"
       "From EsVerif.C03 Require Import Model Spec Exec.\n"
       "From Coq.Strings Require Import Byte String.\nOpen Scope list_scope.\n")

# Reading through the SAME object that wrote (sf.read(header=True) on an SFile opened with 'r+') is one more form of the
# `read` operation.  On /repo HEAD it is wrong (Records::Write overwrites its row count with the size of the last chunk);
# fixes/C03/0004 repairs it.  The form is generated once that patch is in the tree: set this to True then (or run with
# VERIF_C03_SAME_HANDLE=1 to try it before).
SAME_HANDLE_READS = True  # fixes/C03/0004 is in /repo (integrated)

_TMP = [None, 0]
RESERVED_LOWER = ("_size", "_nrows", "_delim", "_shape", "_has_fields", "_dtype", "_version")
DELIMS = [None, ",", "\t", " "]


def _fname(ext=".rec"):
    _TMP[1] += 1
    d = os.path.join(_TMP[0] or os.path.join(core.SCRATCH_ROOT, "esutil-verif-c03.%d" % os.getpid()), "p q \u00e9")
    os.makedirs(d, exist_ok=True)           # (a directory name with blanks and a non-ASCII letter)
    os.makedirs(os.path.join(os.path.dirname(d), "elsewhere"), exist_ok=True)
    # a small pool of names, reused by all histories of the run (each history removes its file when it is done): state that
    # the implementation carries across calls keyed by the file NAME (or name + size, name + mtime) collides
    return os.path.join(d, "h%d%s" % (_TMP[1] % 3, ext))


# ----------------------------------------------------------------------------------------------
# Coq printers
# ----------------------------------------------------------------------------------------------

def cbytes(b):
    b = bytes(b)
    if not b:
        return "(@nil byte)"
    return "[" + ";".join("x%02x" % x for x in b) + "]"     # (list literals elaborate 3x faster than unhex "..")


def cfield(f):
    name, ts, shape = f
    return "(fld %s %s %s %s [%s])" % (cbytes(name.encode()), cbytes(ts[0].encode()), cbytes(ts[1].encode()),
                                       cz(int(ts[2:])), ";".join(cz(s) for s in shape))


def cdtype(fields):
    return "[" + "; ".join(cfield(f) for f in fields) + "]" if fields else "(@nil field)"


def crows(rows):
    return "[" + "; ".join(cbytes(bytes.fromhex(r)) for r in rows) + "]" if rows else "(@nil (list byte))"


def cdelim(dl):
    return "None" if dl is None else "(Some %s)" % cbytes(dl.encode())


def cofile(h):
    return "None" if h is None else "(Some %s)" % cbytes(bytes.fromhex(h))


# ----------------------------------------------------------------------------------------------
# dtypes, chunks, headers
# ----------------------------------------------------------------------------------------------

BIN_BASES = ["i1", "u1", "i2", "u2", "i4", "u4", "i8", "u8", "f4", "f8", "b1", "c8", "c16"] + ["S%d" % k for k in (1, 2, 3, 5, 8, 12)]
TXT_BASES = ["i1", "u1", "i2", "u2", "i4", "u4", "i8", "u8", "f4", "f8", "S1", "S2", "S3", "S5", "S8"]
NAMES = ["x", "y", "ra", "dec", "flux", "id", "END", "TREND", "_x", "SIZE", "f0", "name", "N", "mag_r", "e1", "tag"]


def nelem(shape):
    n = 1
    for s in shape:
        n *= s
    return n


def rowsize(fields):
    return sum(int(ts[2:]) * nelem(sh) for _, ts, sh in fields)


def has_order(ts):
    return not (ts[1] in "Sb" or int(ts[2:]) == 1)


def gen_dtype(r, textual):
    bases = TXT_BASES if textual else BIN_BASES
    for _ in range(50):
        n = r.choice([1, 2, 2, 3, 3, 4])
        # text files: one byte order per table (Recfile.write's to_native assumes it; mixed orders are C04/C16's subject)
        mode = r.choice(["<", ">", "<"] if textual else ["<", ">", "<", "mixed"])
        names = r.sample(NAMES, n)
        fields = []
        for nm in names:
            b = r.choice(bases)
            ts = "|" + b
            if has_order(ts):
                ts = (mode if mode != "mixed" else r.choice("<>")) + b
            shape = [r.choice([1, 2, 2, 3]) for _ in range(r.choice([0, 0, 0, 1, 1, 2]))]
            fields.append([nm, ts, shape])
        if rowsize(fields) <= 96:
            return fields
    return [["x", "<i4", []], ["y", ">f8", [2]]]


F4_SAFE = [0.0, 1.0, -1.0, 0.5, -2.25, 1024.0, 3.0, 0.125, 1e10, -7.75, 65504.0]
F8_SAFE = [0.0, 1.0, -1.0, 0.5, 1e300, -2.5e-7, 123456.789, 8.5, 6.6, 0.1, -1e-300, 3.141592653589793e5, 2.0 ** 52]
S_CHARS = "abcxyzENDSIZ_019"


def gen_value(r, ts, textual):
    """python value for one cell; textual: survives the text form exactly and never meets the
    white-space / delimiter corner cases that are C04's subject"""
    kind, size = ts[1], int(ts[2:])
    if kind == "i":
        lo, hi = -(1 << (8 * size - 1)), (1 << (8 * size - 1)) - 1
        return r.choice([0, 1, -1, lo, hi, r.randrange(lo, hi + 1), r.randrange(-100, 100)])
    if kind == "u":
        hi = (1 << (8 * size)) - 1
        return r.choice([0, 1, hi, r.randrange(0, hi + 1), r.randrange(0, 100)])
    if kind == "f":
        pool = F4_SAFE if size == 4 else F8_SAFE
        if r.random() < 0.3:
            # at most 7 (f4, "%.7g") / 10 (f8, "%.16g") significant decimal digits: exact in the text form
            return float(r.randrange(-9999, 9999)) / 8.0 if size == 4 else float(r.randrange(-10 ** 6, 10 ** 6)) / 1000.0
        return r.choice(pool)
    if kind == "c":
        return complex(r.choice(F4_SAFE), r.choice(F4_SAFE))
    if kind == "b":
        return r.random() < 0.5
    if textual:
        return "".join(r.choice(S_CHARS) for _ in range(size)).encode()
    return bytes(r.choice([0, 0x45, 0x4e, 0x44, 0x0a, 0xff, 0x20, r.randrange(256)]) for _ in range(size))


def np_dtype_of(fields):
    import numpy as np
    return np.dtype([(nm, ts, tuple(sh)) if sh else (nm, ts) for nm, ts, sh in fields])


def fields_of(dt):
    """numpy dtype -> [[name, typestr, shape]] or None when it is not a packed structured dtype"""
    if dt.names is None:
        return None
    out, off = [], 0
    for nm in dt.names:
        fdt, o = dt.fields[nm][:2]
        if o != off or fdt.base.kind not in "iufbcS":
            return None
        out.append([nm, fdt.base.str, [int(s) for s in fdt.shape]])
        off += fdt.itemsize
    if off != dt.itemsize:
        return None
    return out


def gen_big_chunk(r, fields, nrows, textual):
    """many rows (beyond stdio / numpy block sizes): values drawn per column, vectorised"""
    import numpy as np
    rs = np.random.RandomState(r.randrange(2 ** 31))
    a = np.zeros(nrows, dtype=np_dtype_of(fields))
    for nm, ts, sh in fields:
        kind, size = ts[1], int(ts[2:])
        shape = (nrows,) + tuple(sh)
        if kind in "iu":
            lo, hi = (-(1 << (8 * size - 1)), (1 << (8 * size - 1)) - 1) if kind == "i" else (0, (1 << (8 * size)) - 1)
            lo, hi = max(lo, -10 ** 9), min(hi, 10 ** 9)
            a[nm] = rs.randint(lo, hi + 1, size=shape, dtype="i8")
        elif kind == "f":
            a[nm] = rs.randint(-9999, 9999, size=shape) / 8.0
        elif kind == "S":
            pool = np.frombuffer(S_CHARS.encode(), dtype="S1")
            a[nm] = pool[rs.randint(0, len(pool), size=shape + (size,))].view("S%d" % size).reshape(shape)
        else:
            a[nm] = rs.randint(0, 2, size=shape)
    return {"dtype": fields, "rows": rows_of(a)}


def gen_chunk(r, fields, nrows, textual):
    import numpy as np
    if nrows > 64:
        return gen_big_chunk(r, fields, nrows, textual)
    dt = np_dtype_of(fields)
    a = np.zeros(nrows, dtype=dt)
    for nm, ts, sh in fields:
        col = a[nm].reshape(nrows, -1) if sh else a[nm].reshape(nrows, 1)
        for i in range(nrows):
            for j in range(col.shape[1]):
                col[i, j] = gen_value(r, ts, textual)
    if not textual and r.random() < 0.3:        # arbitrary bit patterns (NaN payloads, -0.0, ...)
        raw = bytes(r.randrange(256) for _ in range(a.nbytes))
        a = np.frombuffer(raw, dtype=dt).copy()
    return {"dtype": fields, "rows": rows_of(a)}


def make_data(ch):
    import numpy as np
    dt = np_dtype_of(ch["dtype"])
    buf = b"".join(bytes.fromhex(x) for x in ch["rows"])
    assert dt.itemsize * len(ch["rows"]) == len(buf), "generator: row bytes do not fit the dtype"
    return np.frombuffer(buf, dtype=dt).copy()


def rows_of(arr):
    import numpy as np
    a = np.ascontiguousarray(arr).reshape(-1)
    raw, n = a.tobytes(), a.dtype.itemsize
    return [raw[i * n:(i + 1) * n].hex() for i in range(a.size)]


def swap_order(fields):
    out = []
    for nm, ts, sh in fields:
        if has_order(ts):
            ts = ("<" if ts[0] == ">" else ">") + ts[1:]
        out.append([nm, ts, sh])
    return out


def reorder_chunk(r, ch, fields2):
    """the same values in another byte order"""
    a = make_data(ch)
    return {"dtype": fields2, "rows": rows_of(a.astype(np_dtype_of(fields2)))}


INCOMPAT = ["extra-field", "dropped-field", "renamed-field", "other-type", "other-size", "other-shape", "other-shape-same-rank",
            "other-shape-other-rank", "shape-vs-scalar", "reordered-fields", "other-byte-order", "renamed-last-field", "other-type-last-field", "renamed-case-only", "wider-string", "narrower-string",
            "swapped-names", "swapped-twin-fields"]


def incompatible(r, fields, kind, textual):
    """a dtype that differs from `fields` in the named way, or None when that is impossible"""
    f = [[nm, ts, list(sh)] for nm, ts, sh in fields]
    i = r.randrange(len(f))
    if kind == "extra-field":
        return f + [["zz", "<i2", []]]
    if kind == "dropped-field":
        return f[:-1] if len(f) >= 2 else None
    if kind in ("renamed-last-field", "other-type-last-field"):
        i = len(f) - 1
        kind = {"renamed-last-field": "renamed-field", "other-type-last-field": "other-type"}[kind]
    shaped = [j for j in range(len(f)) if f[j][2]]
    if kind == "other-shape-same-rank":
        if not shaped:
            return None
        i = r.choice(shaped)
        k = r.randrange(len(f[i][2]))
        f[i][2][k] += 1
        return f
    if kind == "other-shape-other-rank":
        if not shaped:
            return None
        i = r.choice(shaped)
        f[i][2] = f[i][2] + [2] if r.random() < 0.5 else ([1] + f[i][2])
        return f
    if kind == "swapped-names":
        # the same SET of names, the same types position by position: two fields exchange their names
        if len(f) < 2:
            return None
        i, j = r.sample(range(len(f)), 2)
        f[i][0], f[j][0] = f[j][0], f[i][0]
        return f
    if kind == "swapped-twin-fields":
        # two fields of identical type and shape change places (equal descr apart from the order of the names)
        tw = [(i, j) for i in range(len(f)) for j in range(i + 1, len(f)) if f[i][1:] == f[j][1:]]
        if not tw:
            return None
        i, j = r.choice(tw)
        f[i], f[j] = f[j], f[i]
        return f
    if kind in ("wider-string", "narrower-string"):
        cand = [j for j in range(len(f)) if f[j][1][1] == "S" and (kind == "wider-string" or int(f[j][1][2:]) > 1)]
        if not cand:
            return None
        i = r.choice(cand)
        f[i][1] = "|S%d" % (int(f[i][1][2:]) + (1 if kind == "wider-string" else -1))
        return f
    if kind == "renamed-case-only":
        cand = [j for j in range(len(f)) if f[j][0].swapcase() != f[j][0] and f[j][0].swapcase() not in [x[0] for x in f]]
        if not cand:
            return None
        i = r.choice(cand)
        f[i][0] = f[i][0].swapcase()
        return f
    if kind == "renamed-field":
        f[i][0] = f[i][0] + "2"
        return f
    if kind == "other-type":
        ts = f[i][1]
        sw = {"i": "u", "u": "i", "f": "i", "c": "f", "b": "u", "S": "u"}[ts[1]]
        size = int(ts[2:])
        if sw in "iu" and size not in (1, 2, 4, 8):
            return None
        if sw == "f" and size not in (4, 8):
            size = 8
        nts = sw + str(size)
        f[i][1] = ("|" if not has_order("|" + nts) else (ts[0] if ts[0] in "<>" else "<")) + nts
        return f if (f[i][1][1:] != ts[1:]) else None
    if kind == "other-size":
        ts = f[i][1]
        k, size = ts[1], int(ts[2:])
        new = {"i": {1: 2, 2: 4, 4: 8, 8: 4}, "u": {1: 2, 2: 4, 4: 8, 8: 4}, "f": {4: 8, 8: 4}, "c": {8: 16, 16: 8}}.get(k, {}).get(size)
        if k == "S":
            new = size + 1
        if new is None:
            return None
        nts = k + str(new)
        f[i][1] = ("|" if not has_order("|" + nts) else (ts[0] if ts[0] in "<>" else "<")) + nts
        return f
    if kind == "other-shape":
        sh = f[i][2]
        f[i][2] = [2] if not sh else ([sh[0] + 1] + sh[1:])
        return f
    if kind == "shape-vs-scalar":
        sh = f[i][2]
        f[i][2] = [1] if not sh else ([] if nelem(sh) == 1 else None)
        return f if f[i][2] is not None else None
    if kind == "reordered-fields":
        if len(f) < 2:
            return None
        g = f[1:] + f[:1]
        return g
    if kind == "other-byte-order":
        g = swap_order(f)
        return g if g != f else None
    raise AssertionError(kind)


HDR_POOL = [
    None, {}, {"k": "v"}, {"date": "2007-05-12", "age": 33}, {"k": "THE END"}, {"END": 0, "note": "SIZE = 3"},
    {"subd": {"subd1": "subfield", "sublist": [8.5, 6.6]}, "n": None, "t": True},
    {"note": "word " * 30, "list": ["END"] * 20}, {"q": "it's \"q\"\n\tEND\n", "b": b"\x00\xffEND"},
    {"name": "Janet Smith", "age": 32, "longitude": 124.325, "latitude": -18.584}, {"é": "ünï", "k": "日本 END"},
    {"x": 10 ** 30, "t": (1, 2, (3,)), "f": -0.0},
]


# user headers with the reserved names in the spellings _make_header strips (lower / UPPER case) or overwrites (_DTYPE,
# _VERSION), and lower-case _dtype / _version, which survive harmlessly: in particular the header dicts that
# sfile.read(other_file, header=True) returns for a file of the OTHER form (the pass-through idiom
# `data, hdr = sfile.read(f1, header=True); sfile.write(f2, data, header=hdr)`), and mixed-case spellings (_Size, _Delim:
# they survived into the file and were found by the case-insensitive _match_key until 04e3f20; witness
# corpus/C03/fixed-mixed-case-size-key.json).
RESERVED_HDRS = [
    {"_DELIM": ",", "_DTYPE": [("x", "i4"), ("y", "f8", (2,))], "_VERSION": "1.0", "_SIZE": 5, "user": "from a csv file"},
    {"_DELIM": "\t", "_DTYPE": [("id", "i8")], "_VERSION": "1.0", "_SIZE": 1, "k": "THE END"},
    {"_DELIM": " ", "_SIZE": 12, "n": 3},
    {"_delim": ",", "_size": 9, "_nrows": 9, "_shape": (3, 3), "_has_fields": True, "keep": [1, 2]},
    {"_DTYPE": [("x", "<i4"), ("y", ">f8", (2,))], "_VERSION": "1.0", "_SIZE": 7, "user": "from a binary file"},
    {"_DTYPE": "f8", "_VERSION": "0.9", "_NROWS": 4, "_SHAPE": (2, 2), "_HAS_FIELDS": False},
    {"_dtype": [("q", "f8")], "_version": "0.5", "_SIZE": 1, "_DELIM": ",", "z": None},
    {"_SIZE": 0}, {"_DELIM": ","}, {"_delim": None},
    # mixed-case spellings (stripped in any spelling since 04e3f20; the header is read case-insensitively)
    {"_Size": 77, "user": 1}, {"_Delim": ",", "_Nrows": 3}, {"_sIZE": 5, "_dELIM": "\t", "_Shape": (2,), "_Has_Fields": True, "k": "v"},
    {"_Dtype": "f8", "_Version": "2.0", "_Size": 1},
]


# user keys that merely CONTAIN a reserved name (prefix / suffix / infix, any case), sorting before and after the module's own
# entries, with int / str / list / nested values: ordinary user entries, to be kept and never taken for the file's own fields
LOOKALIKE_HDRS = [
    {"stamp_size": 32}, {"psf_size": 25, "bin_size": 0.5}, {"my_delim": ";", "x_dtype": "f8"},
    {"A_SIZE": 77, "A_DELIM": ",", "A_DTYPE": [("q", "f8")]},                 # sort before _DTYPE / _SIZE
    {"zz_size": 3, "zz_delim": "\t", "zz_dtype": "i4", "zz_version": "9"},     # sort after
    {"_size_limit": 10 ** 6, "_DELIMITER": "|", "__dtype__": ["<i4"], "_nrows_total": 12, "_VERSIONS": ["1.0", "2.0"]},
    {"x_Size": 5, "Delim": ",", "DTYPE": "S3", "has_fields_flag": True, "my_shape": (2, 2)},
    {"SIZE": 4, "size": 9, "delim": None, "dtype": [("a", "i2")], "version": 1},
    {"_SIZ": 1, "SIZE_": 2, "_size2": 3, "2_size": 4, "_delim_": ":"},
]


def gen_header(r):
    k = r.random()
    if k < 0.2:
        return r.choice(RESERVED_HDRS)
    if k < 0.4:
        h = dict(r.choice(LOOKALIKE_HDRS))
        if r.random() < 0.3:
            h.update(r.choice(RESERVED_HDRS))
        return h
    if r.random() < 0.7:
        return r.choice(HDR_POOL)
    h = {}
    for _ in range(r.choice([1, 2, 4])):
        h[r.choice(["k", "key1", "a b", "date", "note", "v1", "z", "dataset", "pyvers"])] = r.choice(
            ["v", 1, -2.5, None, True, [1, 2, 3], ("a", 1), {"in": [1, {"deep": "END"}]}, "x" * 90, b"bytes", 2 ** 63])
    return h


def canon_val(v):
    if isinstance(v, dict):
        return ["dict", sorted(([repr(k), canon_val(x)] for k, x in v.items()), key=lambda t: t[0])]
    if isinstance(v, (list, tuple)):
        return [type(v).__name__, [canon_val(x) for x in v]]
    return [type(v).__name__, repr(v)]


def canon_user(h):
    """canonical rendering of the user's header entries (reserved names removed)"""
    u = {k: v for k, v in (h or {}).items() if not (isinstance(k, str) and k.lower() in RESERVED_LOWER)}
    return repr(canon_val(u)).encode()


# ----------------------------------------------------------------------------------------------
# histories
# ----------------------------------------------------------------------------------------------

class Builder:
    """builds one history around one base dtype"""

    def __init__(self, r, textual, dl=None, fields=None):
        self.r, self.textual = r, textual
        self.dl = dl if dl is not None or not textual else r.choice(DELIMS[1:])
        self.fields = fields or gen_dtype(r, textual)
        self.chunks, self.ops = [], []

    def chunk(self, fields=None, nrows=None):
        ch = gen_chunk(self.r, fields or self.fields, nrows or self.r.choice([1, 1, 2, 3, 4, 6]), self.textual)
        self.chunks.append(ch)
        return len(self.chunks) - 1

    def swapped_chunk(self):
        f2 = swap_order(self.fields)
        ch = reorder_chunk(self.r, gen_chunk(self.r, self.fields, self.r.choice([1, 2, 3]), self.textual), f2)
        self.chunks.append(ch)
        return len(self.chunks) - 1

    def hdr(self, h="gen"):
        h = gen_header(self.r) if h == "gen" else h
        return None if h is None else repr(h)

    # ---- the FORM in which an operation is issued (same meaning, other spelling); forms=False: the plain one
    forms = True

    def _view(self, c):
        if not self.forms or self.r.random() < 0.5:
            return "plain"
        n = len(self.chunks[c]["rows"])
        pool = ["recarray", "strided", "reversed", "readonly", "inplace", "inplace", "returned"]
        if n == 1:
            pool += ["zerod", "zerod"]      # (a numpy.void record is a scalar, not an array: outside the statement)
        if n >= 2 and n % 2 == 0:
            pool += ["twod"]
        return self.r.choice(pool)

    def _pick(self, pool):
        return self.r.choice(pool) if self.forms else pool[0]

    PF = ["plain", "plain", "env", "env2", "tilde", "pathlib", "rel-here", "rel-up", "rel-side"]

    def _pf(self):
        return self._pick(self.PF)

    def create(self, dl="base", h="gen", c=None):
        c = self.chunk() if c is None else c
        self.ops.append({"k": "create", "dl": self.dl if dl == "base" else dl, "c": c, "hdr": self.hdr(h),
                         "view": self._view(c), "ctor": self._pick(["new", "new", "reuse", "Open", "reuse2"]), "kw": self._pick(["full", "minimal"]),
                         "hobj": self._pick(["new", "same"]), "pf": self._pf()})

    def again(self, c=None, h=None):
        c = self.chunk() if c is None else c
        self.ops.append({"k": "again", "c": c, "hdr": self.hdr(h), "view": self._view(c), "kw": self._pick(["full", "minimal"]),
                         "hobj": self._pick(["new", "same"]), "pf": self._pf()})

    def close(self):
        self.ops.append({"k": "close"})

    def reopen(self, dl="base"):
        self.ops.append({"k": "reopen", "dl": self.dl if dl == "base" else dl, "ctor": self._pick(["new", "new", "reuse", "Open", "reuse2"]),
                         "kw": self._pick(["full", "minimal"]), "pf": self._pf()})

    def fn(self, append, dl="base", h=None, c=None):
        c = self.chunk() if c is None else c
        self.ops.append({"k": "fn", "append": bool(append), "dl": self.dl if dl == "base" else dl, "c": c, "hdr": self.hdr(h),
                         "view": self._view(c), "via": self._pick(["sfile", "sfile", "swapped", "io"]), "kw": self._pick(["full", "minimal"]),
                         "hobj": self._pick(["new", "same"]), "pf": self._pf()})

    def read(self, via=None):
        pool = ["fn", "fn", "cls", "slice", "io", "hdr"] + (["same", "same"] if SAME_HANDLE_READS else [])
        self.ops.append({"k": "read", "via": via or self._pick(pool), "pf": self._pf()})

    def case(self, family, adv=True):
        return {"chunks": self.chunks, "ops": self.ops, "family": family, "adv": adv}


def adversarial(r, textual, dl):
    """the families named in the quantifier, for one delimiter"""
    cs = []
    tag = "bin" if dl is None else {",": "csv", "\t": "tab", " ": "space"}[dl]

    def B():
        return Builder(r, textual, dl)
    # append to a file that does not exist yet: function and class form
    b = B(); b.fn(True, h={"k": "v"}); b.read(); b.fn(True); b.read(); cs.append(b.case("adv:append-missing-fn:" + tag))
    b = B(); b.reopen(); b.again(h={"made": "by reopen"}); b.read(); b.again(); b.close(); b.read(); cs.append(b.case("adv:append-missing-class:" + tag))
    # several writes through one object, read after every step (also while it is open)
    b = B(); b.create(h={"date": "2007-05-12", "age": 33}); b.read(); b.again(); b.read(); b.again(); b.read(); b.close(); b.read()
    cs.append(b.case("adv:same-handle:" + tag))
    # appends that reopen the file: function form and class form, header keyword on an append is ignored
    b = B(); b.create(h={"k": "THE END"}); b.close(); b.fn(True, h={"k": "other"}); b.read(); b.fn(True); b.read()
    b.reopen(); b.again(h={"z": 1}); b.again(); b.read(); b.close(); b.read(); cs.append(b.case("adv:append-reopen:" + tag))
    # the delimiter keyword of an append is ignored (the file's own delimiter counts)
    b = B(); b.fn(False, h={"n": 1}); b.fn(True, dl=r.choice([d for d in DELIMS if d != dl])); b.read()
    b.reopen(dl=r.choice(DELIMS)); b.again(); b.close(); b.read(); cs.append(b.case("adv:append-delim-kw:" + tag))
    # a non-append write replaces contents, header, dtype (and form)
    b = B(); b.create(); b.again(); b.close(); b.fn(False, h={"second": True}, c=b.chunk(gen_dtype(r, textual))); b.read()
    b.fn(True, c=b.chunk(b.chunks[-1]["dtype"])); b.read(); cs.append(b.case("adv:overwrite:" + tag))
    b = B(); b.create(); b.create(h={"again": 1}); b.read(); b.again(); b.close(); b.read(); cs.append(b.case("adv:recreate-open:" + tag))
    # incompatible appends, every family, function form and on an open object; then a compatible one
    for kind in INCOMPAT:
        b = B()
        if kind == "swapped-twin-fields":       # a table with two fields of the same type
            fs = gen_dtype(r, textual)
            twin = [fs[0][0] + "_b", fs[0][1], list(fs[0][2])]
            b = Builder(r, textual, dl, fs[:1] + [twin] + fs[1:3])
        f2 = incompatible(r, b.fields, kind, textual)
        for _ in range(60):
            if f2 is not None:
                break
            b = B()
            f2 = incompatible(r, b.fields, kind, textual)
        if f2 is None:
            continue
        b.create(h={"k": kind}); b.again(); b.close(); b.read()
        bad = b.chunk(f2) if kind != "other-byte-order" else b.swapped_chunk()
        b.fn(True, c=bad); b.read()
        b.reopen(); b.again(c=bad); b.read(); b.again(); b.close(); b.read()
        cs.append(b.case("adv:incompatible:%s:%s" % (kind, tag)))
    # long handles: many writes through one 'w' object, through one 'r+' object (header= on later writes is ignored),
    # and interleaved reopen / function append / overwrite
    b = B(); b.create(h={"long": "w"})
    for i in range(14):
        b.again(h=r.choice([None, None, {"ignored": i}]))
        if i % 4 == 1:
            b.read()
    b.close(); b.read(); cs.append(b.case("adv:long-w-handle:" + tag))
    b = B(); b.fn(False, h={"long": "r+"}); b.reopen(dl=r.choice(DELIMS))
    for i in range(14):
        if i in (5, 11):
            f2 = incompatible(r, b.fields, r.choice(["other-byte-order", "reordered-fields", "extra-field", "other-shape"]), textual)
            if f2 is not None:
                b.again(c=b.chunk(f2))
        b.again(h=r.choice([None, {"ignored": i}]))
        if i % 5 == 2:
            b.read()
    b.close(); b.read(); cs.append(b.case("adv:long-rp-handle:" + tag))
    b = B(); b.create(); b.close()
    for i in range(5):
        b.reopen(dl=r.choice(DELIMS)); b.again(); b.again(h={"i": i}); b.close(); b.fn(True, dl=r.choice(DELIMS)); b.read()
        if i == 2:
            b.fn(False, h={"restart": True}); b.read()
    cs.append(b.case("adv:interleaved:" + tag))
    # headers carrying reserved names (pass-through of the header of a file of the other form): on creation (function and
    # class form, and through an object opened 'r+' on a missing path), on appends and later writes (ignored)
    for i, h in enumerate(RESERVED_HDRS[:7] + RESERVED_HDRS[-4:]):
        b = B()
        how = i % 3
        if how == 0:
            b.fn(False, h=h)
        elif how == 1:
            b.create(h=h); b.again(h=RESERVED_HDRS[(i + 1) % 7]); b.close()
        else:
            b.reopen(); b.again(h=h); b.close()
        b.read(); b.fn(True, h=RESERVED_HDRS[(i + 3) % 7]); b.read(); b.reopen(); b.again(h=h); b.read("same"); b.close(); b.read()
        cs.append(b.case("adv:reserved-header:%d:%s" % (i, tag)))
    # user keys that contain a reserved name: creation, append by reopening (function and object), reads through every path
    for i, h in enumerate(LOOKALIKE_HDRS):
        b = B()
        if i % 2:
            b.create(h=h); b.close()
        else:
            b.fn(False, h=h)
        b.fn(True, h=LOOKALIKE_HDRS[(i + 1) % len(LOOKALIKE_HDRS)]); b.read(); b.reopen(); b.again(); b.read("same"); b.again(h=h)
        b.close(); b.read(r.choice(["cls", "slice", "io", "hdr"])); b.fn(True); b.read()
        cs.append(b.case("adv:lookalike-header:%d:%s" % (i, tag)))
    if SAME_HANDLE_READS:
        b = B(); b.fn(False, h={"same": 1}); b.reopen(); b.read("same"); b.again(); b.read("same"); b.again(); b.again(); b.read("same")
        b.close(); b.read(); cs.append(b.case("adv:same-handle-read:" + tag))
    # misuse outside the statement (correspondence only): write with no object open, append to an empty file
    b = B(); b.again(); b.read(); b.create(); b.close(); b.again(); b.read(); cs.append(b.case("adv:misuse-no-object:" + tag, adv=False))
    b = B(); b.reopen(); b.close(); b.fn(True); b.reopen(); b.read(); b.fn(False); b.read(); cs.append(b.case("adv:misuse-empty-file:" + tag, adv=False))
    return cs


def big_histories(r, dl, sizes):
    """chunks of very different sizes, beyond stdio (4096, 65536 bytes) and numpy block sizes (16384 rows)"""
    textual = dl is not None
    fields = [["n", "|u1", []], ["s", "|S1", []]] if textual else [["a", ">i2", []], ["b", "|u1", []]]
    b = Builder(r, textual, dl, fields)
    b.fn(False, h={"big": True}, c=b.chunk(nrows=sizes[0])); b.read()
    b.fn(True, c=b.chunk(nrows=1)); b.reopen()
    for n in sizes[1:]:
        b.again(c=b.chunk(nrows=n)); b.read()
    b.again(c=b.chunk(nrows=2)); b.close(); b.read()
    tag = "bin" if dl is None else {",": "csv", "\t": "tab", " ": "space"}[dl]
    return b.case("adv:big-chunks:" + tag)


def fixed_chunk(fields, rows):
    """a chunk with the given cell values (one tuple per row)"""
    import numpy as np
    a = np.zeros(len(rows), dtype=np_dtype_of(fields))
    for i, row in enumerate(rows):
        for (nm, ts, sh), v in zip(fields, row):
            a[nm][i] = v
    return {"dtype": fields, "rows": rows_of(a)}


def same_size_overwrites(r, dl):
    """a non-append write that replaces a file by one of EXACTLY the same number of bytes but another dtype / byte order /
    field name / user header / delimiter, after the first file was read or opened for appending in this process; then
    reads and appends that depend on the NEW header.  (Anything the implementation remembers about a path, keyed by what
    did not change — name, size, field names, record size — shows here.)"""
    textual = dl is not None
    tag = "bin" if dl is None else {",": "csv", "\t": "tab", " ": "space"}[dl]
    rows_i = [(r.randrange(1, 9), b"abc"), (r.randrange(1, 9), b"xyz"), (r.randrange(1, 9), b"END")]
    rows_j = [(r.randrange(1, 9), b"qrs"), (r.randrange(1, 9), b"tuv"), (r.randrange(1, 9), b"wxy")]
    base = [["x", "<i4", []], ["s", "|S3", []]]
    variants = [
        ("other-kind", [["x", "<f4", []], ["s", "|S3", []]], "{'run': 1}", dl),
        ("other-byte-order", [["x", ">i4", []], ["s", "|S3", []]], "{'run': 1}", dl),
        ("other-name", [["y", "<i4", []], ["s", "|S3", []]], "{'run': 1}", dl),
        ("other-header", base, "{'run': 2}", dl),
        ("other-header-and-kind", [["x", "<u4", []], ["s", "|S3", []]], "{'rum': 1}", dl),
    ]
    if textual:
        variants += [("other-int-size", [["x", "<i2", []], ["s", "|S3", []]], "{'run': 1}", dl),
                     ("other-delimiter", base, "{'run': 1}", {",": " ", " ": ",", "\t": ","}[dl])]
    cs = []
    for name, f2, h2, dl2 in variants:
        if len(repr(dl2)) != len(repr(dl)):
            continue
        for warm in ("read", "reopen", "append-reopen"):
            b = Builder(r, textual, dl, base)
            c1 = len(b.chunks); b.chunks.append(fixed_chunk(base, rows_i))
            c2 = len(b.chunks); b.chunks.append(fixed_chunk(f2, rows_j))
            c3 = len(b.chunks); b.chunks.append(fixed_chunk(f2, rows_i[:2]))
            cold = len(b.chunks); b.chunks.append(fixed_chunk(base, rows_j[:1]))
            b.fn(False, c=c1, h=None); b.ops[-1]["hdr"] = "{'run': 1}"
            if warm == "read":
                b.read(r.choice(["fn", "hdr", "cls"]))
            elif warm == "reopen":
                b.reopen(); b.close()
            else:
                b.reopen(); b.again(c=cold); b.close(); b.read()
                # ... and back to the size of the first file
                b.fn(False, c=c1, h=None); b.ops[-1]["hdr"] = "{'run': 1}"; b.read()
            if r.random() < 0.5:
                b.fn(False, dl=dl2, c=c2, h=None)
            else:
                b.create(dl=dl2, c=c2, h=None); b.close()
            b.ops[-2 if b.ops[-1]["k"] == "close" else -1]["hdr"] = h2
            b.read()
            b.fn(True, c=cold)          # the OLD dtype: compatible only if the dtype did not change
            b.fn(True, c=c3); b.read()
            b.reopen(); b.read("same"); b.again(c=c3); b.again(c=cold); b.close(); b.read()
            cs.append(b.case("adv:same-size-overwrite:%s:%s:%s" % (name, warm, tag)))
    return cs


def path_form_histories(r, dl):
    """every operation of a create / append / reopen / read history with the file named in one of the accepted spellings
    (the existence test, the header read, the open for appending and the read-back must all mean the same file)"""
    textual = dl is not None
    tag = "bin" if dl is None else {",": "csv", "\t": "tab", " ": "space"}[dl]
    cs = []
    for pf in ["env", "env2", "tilde", "pathlib", "rel-here", "rel-up", "rel-side"]:
        b = Builder(r, textual, dl)
        b.create(h={"spelled": pf}); b.again(); b.close(); b.fn(True); b.read(); b.reopen(); b.again(); b.read("same"); b.close()
        b.fn(True); b.read(); b.fn(False, h={"again": pf}); b.fn(True); b.read()
        for o in b.ops:
            o["pf"] = pf if r.random() < 0.8 else r.choice(Builder.PF)
        b.ops[3]["pf"] = pf          # the first append by reopening
        cs.append(b.case("adv:path-form:%s:%s" % (pf, tag)))
    return cs


def size_digit_histories(r, dl):
    """the stored row count crosses the boundaries where its number of digits changes (9 -> 10 -> 11, 99 -> 100 -> 101,
    999 -> 1000): the in-place update must keep the 20-character field"""
    textual = dl is not None
    tag = "bin" if dl is None else {",": "csv", "\t": "tab", " ": "space"}[dl]
    b = Builder(r, textual, dl, [["n", "|u1", []], ["s", "|S1", []]])
    b.fn(False, h={"digits": True}, c=b.chunk(nrows=8)); b.fn(True, c=b.chunk(nrows=1)); b.read()
    b.reopen(); b.again(c=b.chunk(nrows=1)); b.read(); b.again(c=b.chunk(nrows=1)); b.read("same")
    b.again(c=b.chunk(nrows=88)); b.read(); b.again(c=b.chunk(nrows=1)); b.read(); b.close(); b.fn(True, c=b.chunk(nrows=1)); b.read()
    b.fn(True, c=b.chunk(nrows=898)); b.read(); b.reopen(); b.again(c=b.chunk(nrows=1)); b.read("same"); b.again(c=b.chunk(nrows=1)); b.close(); b.read()
    return b.case("adv:size-digits:" + tag)


def random_history(r, maxops):
    textual = r.random() < 0.55
    b = Builder(r, textual)
    other = DELIMS[1:] if textual else [None]
    n = r.randrange(3, maxops + 1)
    for i in range(n):
        k = r.random()
        have = bool(b.ops)
        if not have or k < 0.10:
            which = r.random()
            if which < 0.5:
                b.create()
            elif which < 0.8:
                b.fn(False, h="gen")
            else:
                b.fn(True, h="gen")
        elif k < 0.30:
            b.again(h=r.choice([None, None, "gen"]))
        elif k < 0.40:
            b.close()
        elif k < 0.50:
            b.reopen(dl=r.choice(["base", "base", r.choice(other)]))
        elif k < 0.65:
            b.fn(True, dl=r.choice(["base", "base", r.choice(other)]), h=r.choice([None, "gen"]))
        elif k < 0.72:
            # overwrite, possibly with another dtype / delimiter of the same kind
            if r.random() < 0.5:
                b.fields = gen_dtype(r, textual)
            if textual:
                b.dl = r.choice(DELIMS[1:])
            b.fn(False, h="gen")
        elif k < 0.84:
            kind = r.choice(INCOMPAT)
            f2 = incompatible(r, b.fields, kind, textual)
            if f2 is None:
                b.read()
                continue
            bad = b.chunk(f2) if kind != "other-byte-order" else b.swapped_chunk()
            if r.random() < 0.5:
                b.fn(True, c=bad)
            else:
                b.again(c=bad)
        else:
            b.read()
        if r.random() < 0.45:
            b.read()
    b.read()
    return b.case("random:" + ("text" if textual else "binary"), adv=False)


# ----------------------------------------------------------------------------------------------
# driving the real code
# ----------------------------------------------------------------------------------------------

class _PPSpy:
    """stands in for the module `pprint` inside esutil.sfile while the real write runs"""
    def __init__(self):
        self.calls = []

    def pformat(self, obj, *a, **k):
        import copy
        txt = _pprint.pformat(obj, *a, **k)
        self.calls.append((copy.deepcopy(obj), txt))
        return txt

    def __getattr__(self, name):
        return getattr(_pprint, name)


def err_of(e):
    return ["err", core.errclass(e), "%s: %s" % (type(e).__name__, str(e)[:160])]


def disk_of(fname):
    if not os.path.exists(fname):
        return None
    with open(fname, "rb") as f:
        return f.read().hex()


_ALONE = {}


def alone(ch, dl):
    """the chunk written ALONE by the real code with delimiter dl: (printed text of its rows, rows read back)"""
    import esutil.sfile as sfile
    key = (repr(ch["dtype"]), tuple(ch["rows"]), dl)
    if key in _ALONE:
        return _ALONE[key]
    fname = _fname(".one")
    res = None
    try:
        sfile.write(fname, make_data(ch), delim=dl)
        with sfile.SFile(fname) as sf:
            off = int(sf._data_start)
            back = sf.read()
        raw = open(fname, "rb").read()
        res = [raw[off:].hex(), rows_of(back), fields_of(back.dtype)]
    except Exception as e:  # noqa
        res = None
    finally:
        try:
            os.remove(fname)
        except OSError:
            pass
    _ALONE[key] = res
    return res


def file_dtype(dl, fields):
    if dl is None:
        return fields
    return [[nm, ("<" + ts[1:]) if ts[0] == ">" else ts, sh] for nm, ts, sh in fields]


def form_data(a, view):
    """the same table handed over in another form (all of them are arrays of the statement: the rows are a[i])"""
    import numpy as np
    n = a.size
    if view == "recarray":
        return a.view(np.recarray)
    if view == "strided":
        big = np.frombuffer(bytes([0xAA]) * (2 * n * a.dtype.itemsize), dtype=a.dtype).copy()
        big[::2] = a
        return big[::2]
    if view == "reversed":
        rev = a[::-1].copy()
        return rev[::-1]
    if view == "readonly":
        a.setflags(write=False)
        return a
    if view == "zerod" and n == 1:
        return np.array(a[0])
    if view == "void" and n == 1:
        return a[0]
    if view == "twod" and n >= 2 and n % 2 == 0:
        return a.reshape(2, n // 2)
    return a


def run_history(case):
    """execute the history on the real code; returns the observations and the contract table"""
    import numpy as np
    import esutil.sfile as sfile
    import copy
    import pathlib
    import esutil.io as eio
    real = _fname()
    if os.path.exists(real):
        os.remove(real)
    fdir, fbase = os.path.dirname(real), os.path.basename(real)
    saved = (os.getcwd(), os.environ.get("HOME"), os.environ.get("C03DIR"))
    os.environ["C03DIR"] = fdir
    os.environ["HOME"] = fdir

    class _Name:
        """the ONE file of the history, spelled per operation in one of the forms the module accepts: absolute, $VAR/..,
        ${VAR}/.., ~/.. (HOME points at the directory), relative to a working directory that changes between
        operations, pathlib.Path"""
        form = "plain"

        def get(self):
            f = self.form
            if f == "env":
                return "$C03DIR/" + fbase
            if f == "env2":
                return "${C03DIR}/" + fbase
            if f == "tilde":
                return "~/" + fbase
            if f == "pathlib":
                return pathlib.Path(real)
            if f == "rel-here":
                os.chdir(fdir)
                return fbase
            if f == "rel-up":
                os.chdir(os.path.dirname(fdir))
                return os.path.join(os.path.basename(fdir), fbase)
            if f == "rel-side":
                os.chdir(os.path.join(os.path.dirname(fdir), "elsewhere"))
                return os.path.join("..", os.path.basename(fdir), fbase)
            return real
    name = _Name()
    try:
        return _run_history(case, real, name, sfile, eio, np, copy)
    finally:
        os.chdir(saved[0])
        for k, v in (("HOME", saved[1]), ("C03DIR", saved[2])):
            if v is None:
                os.environ.pop(k, None)
            else:
                os.environ[k] = v


def _run_history(case, real, name, sfile, eio, np, copy):
    fname = real
    cur = [real]                      # the spelling of the file name used by the current operation
    sf = sfile.SFile()
    obs, texts = [], []

    def open_obj(o, mode):
        """SFile(f, mode, delim=dl) in the spelling the case asks for"""
        minimal = o.get("kw") == "minimal"
        kw = {} if (minimal and o["dl"] is None) else {"delim": o["dl"]}
        ctor = o.get("ctor", "new")
        if ctor in ("reuse", "reuse2"):          # the same object is opened again (SFile.open closes first)
            if ctor == "reuse2":                 # ... after it was used for ANOTHER file (text, other dtype, other header)
                sf.open(decoy, mode="r+")
                sf.write(decoy_data)
            sf.open(cur[0], mode=mode, **kw)
            return sf
        sf.close()
        if ctor == "Open":                       # the deprecated alias
            return sfile.Open(cur[0], mode, **kw)
        return sfile.SFile(cur[0], mode, **kw) if not minimal else sfile.SFile(cur[0], mode=mode, **kw)

    # a second file of another dtype / form: an object that is re-used for `fname` may have been used for it before
    decoy = fname + ".decoy"
    decoy_data = np.zeros(3, dtype=[("q", ">f8"), ("w", "|S5")])
    if any(o.get("ctor") == "reuse2" for o in case["ops"]):
        sfile.write(decoy, decoy_data, header={"decoy": True, "k": "other"}, delim=":")
    arrays, hdict, last_read = {}, {}, [None]

    def the_data(o):
        """the chunk as the case asks for it; view 'inplace': the SAME ndarray object as an earlier write of this
        history (same dtype and length), its contents overwritten in place"""
        ch = case["chunks"][o["c"]]
        a = make_data(ch)
        if o.get("view") == "returned":
            # the caller re-uses (a slice of) the array that an earlier sfile.read of this history RETURNED, changed in place
            ret = last_read[0]
            if ret is not None and ret.dtype == a.dtype and ret.size >= a.size and ret.flags.writeable:
                ret[:a.size] = a
                return ret[:a.size]
            return a
        if o.get("view") == "inplace":
            key = (repr(ch["dtype"]), len(ch["rows"]))
            if key in arrays:
                arrays[key][...] = a
                return arrays[key]
            arrays[key] = a
            return a
        return form_data(a, o.get("view", "plain"))

    for o in case["ops"]:
        k = o["k"]
        name.form = o.get("pf", "plain")
        cur[0] = name.get()
        hdr = ast.literal_eval(o["hdr"]) if o.get("hdr") is not None else None
        if hdr is not None and o.get("hobj") == "same":      # the same dict OBJECT as before, changed in place
            hdict.clear()
            hdict.update(hdr)
            hdr_in = hdict
        else:
            hdr_in = hdr
        hkw = {} if (o.get("kw") == "minimal" and hdr is None) else {"header": hdr_in}
        data_in = the_data(o) if "c" in o else None
        spy = _PPSpy()
        sfile.pprint = spy
        ans = ["ok"]
        try:
            if k == "create":
                try:
                    sf = open_obj(o, "w")
                except Exception:
                    sf = sfile.SFile()
                    raise
                sf.write(data_in, **hkw)
            elif k == "again":
                sf.write(data_in, **hkw)
            elif k == "close":
                sf.close()
            elif k == "reopen":
                try:
                    sf = open_obj(o, "r+")
                except Exception:
                    if o.get("ctor") not in ("reuse", "reuse2"):
                        sf = sfile.SFile()
                    raise
            elif k == "fn":
                sf.close()
                sf = sfile.SFile()
                kw = dict(hkw)
                if not (o.get("kw") == "minimal" and o["dl"] is None):
                    kw["delim"] = o["dl"]
                if not (o.get("kw") == "minimal" and not o["append"]):
                    kw["append"] = o["append"]
                via = o.get("via", "sfile")
                if via == "io":                      # esutil.io.write for *.rec
                    eio.write(cur[0], data_in, **kw)
                elif via == "swapped":               # the documented (data, outfile) order
                    sfile.write(data_in, cur[0], **kw) if isinstance(data_in, np.ndarray) else sfile.write(cur[0], data_in, **kw)
                else:
                    sfile.write(cur[0], data_in, **kw)
            elif k == "read":
                via = o.get("via", "fn")
                if via == "same" and getattr(sf, "_robj", None) is not None and sf.get_mode() == "r+":
                    # through the object that is open for appending (otherwise: the plain form)
                    data, h = sf.read(header=True)
                    assert sf.nrows == h["_SIZE"] == len(sf._robj)
                elif via == "cls":
                    with sfile.SFile(cur[0]) as rs:
                        data, h = rs.read(header=True)
                elif via == "slice":
                    with sfile.SFile(cur[0]) as rs:
                        data = rs[:]
                        h = copy.deepcopy(rs.get_header())
                        assert rs.nrows == h["_SIZE"] and rs.dtype == data.dtype
                elif via == "io":
                    data, h = eio.read(cur[0], header=True)
                elif via == "hdr":
                    h = sfile.read_header(cur[0])
                    data = sfile.read(cur[0])
                else:
                    data, h = sfile.read(cur[0], header=True)
                last_read[0] = data if type(data) is np.ndarray else None
                size = h.get("_SIZE")
                ans = ["read", int(size) if isinstance(size, int) and not isinstance(size, bool) else -1,
                       fields_of(data.dtype) if (type(data) is np.ndarray and data.ndim == 1) else None,
                       rows_of(data), canon_user(h).hex()]
            else:
                raise AssertionError(k)
        except Exception as e:  # noqa
            ans = err_of(e)
        finally:
            sfile.pprint = _pprint
        text = spy.calls[0][1] if spy.calls else None
        head = spy.calls[0][0] if spy.calls else None
        texts.append(None if text is None else {"text": text, "head": head, "hdr": hdr})
        obs.append({"ans": ans, "disk": disk_of(fname), "text": text})
    try:
        sf.close()
    except Exception:  # noqa
        pass
    for p in (fname, decoy):
        try:
            os.remove(p)
        except OSError:
            pass
    return obs, texts


def contract_table(case, texts):
    """for every pformat text of the history: joined text -> (delim, dtype, canonical user entries) as the
    REAL eval / numpy.dtype see it, and the monitor clauses (b), (c)"""
    import numpy as np
    import esutil.sfile as sfile
    table, fails = {}, []
    last_reopen_dl = None
    for o, t in zip(case["ops"], texts):
        if o["k"] == "reopen":
            last_reopen_dl = o["dl"]
        if t is None:
            continue
        eff_dl = last_reopen_dl if o["k"] == "again" else o.get("dl")     # the delimiter of the object that made this header
        text = t["text"]
        joined = " ".join(text.split("\n"))
        ent = {"joined": joined, "delim": None, "dtype": None, "u": canon_user({}).hex(), "b": False, "c": False}
        try:
            val = builtins.eval(joined, vars(sfile))
            ent["b"] = isinstance(val, dict) and val == t["head"] and set(val) == set(t["head"])
            dl = None
            for kk in val:
                if isinstance(kk, str) and kk.lower() == "_delim":
                    dl = val[kk]
                    break
            ent["delim"] = dl
            ent["dtype"] = fields_of(np.dtype(val["_DTYPE"]))
            ent["u"] = canon_user(val).hex()
            # (c): what the operation says it creates
            ch = case["chunks"][o["c"]] if "c" in o else None
            ent["c"] = (ch is not None and dl == eff_dl and ent["dtype"] == file_dtype(dl, ch["dtype"]) and (dl is None or isinstance(dl, str))
                        and ent["u"] == canon_user(t["hdr"]).hex())
        except Exception as e:  # noqa
            ent["error"] = "%s: %s" % (type(e).__name__, str(e)[:120])
        if not (ent["b"] and ent["c"]):
            fails.append({"pformat_text": text, "monitor": {"b": ent["b"], "c": ent["c"]}, "detail": ent.get("error")})
        table[joined] = ent
    return table, fails


class History(Entry):
    name = "history"

    def __init__(self):
        self.monitor_failures = []
        self.texts = set()
        self.nmonitored = 0
        self.inexact_text = 0
        self.same_size_rewrites = 0
        self.enc_pairs = {}

    def cases(self, ctx, round=0):
        r = ctx.rng
        cs = []
        if round == 0:
            for dl in DELIMS:
                cs += adversarial(r, dl is not None, dl)
            for dl in ([None, DELIMS[1 + ctx.seed % 3]] if ctx.quick() else DELIMS):
                cs += path_form_histories(r, dl)
            for dl in ([None, DELIMS[1 + (ctx.seed + 1) % 3]] if ctx.quick() else DELIMS):
                cs.append(size_digit_histories(r, dl))
            sso = []
            for dl in DELIMS:
                sso += same_size_overwrites(r, dl)
            # quick: every variant for binary, a third of the text ones (rotated by seed); thorough: all
            cs += [c for i, c in enumerate(sso) if not ctx.quick() or c["family"].endswith(":bin") or i % 3 == ctx.seed % 3]
            cs.append(big_histories(r, None, [16385, 4097] if ctx.quick() else [16385, 4097, 70001, 32767]))
            for dl in ([DELIMS[1 + ctx.seed % 3]] if ctx.quick() else DELIMS[1:]):
                cs.append(big_histories(r, dl, [16385, 3]))
        n = ctx.n(90, 700) if round == 0 else ctx.n(60, 200)
        for i in range(n):
            cs.append(random_history(r, 8 if ctx.quick() else (40 if i % 8 == 0 else 14)))
        return cs

    def text_delims(self, c):
        return sorted(set(o["dl"] for o in c["ops"] if o.get("dl") is not None))

    def impl(self, c):
        obs, texts = run_history(c)
        table, fails = contract_table(c, texts)
        for f in fails:
            self.monitor_failures.append(dict(f, case=c))
        for t in texts:
            if t is not None:
                self.texts.add(t["text"])
                self.nmonitored += 1
        for i, (o, ob) in enumerate(zip(c["ops"], obs)):
            if i and (o["k"] == "create" or (o["k"] == "fn" and not o["append"])) and ob["ans"][0] == "ok" \
                    and obs[i - 1]["disk"] is not None and ob["disk"] is not None and len(obs[i - 1]["disk"]) == len(ob["disk"]) \
                    and obs[i - 1]["disk"] != ob["disk"]:
                self.same_size_rewrites += 1
        tds = self.text_delims(c)
        accepted = set(o["c"] for o, ob in zip(c["ops"], obs) if "c" in o and ob["ans"][0] == "ok")
        chunks = []
        for i, ch in enumerate(c["chunks"]):
            txt, back = [], ch["rows"]
            for dl in tds:
                a = alone(ch, dl)
                if a is None:
                    continue
                txt.append([dl, a[0]])
                back = a[1]
                if len(ch["rows"]) <= 64 and len(self.enc_pairs) < 400:
                    self.enc_pairs[(repr(ch["dtype"]), tuple(ch["rows"]), dl)] = (ch, dl, a[0])
                # an ACCEPTED chunk whose own text round trip does not give back the written values (C04's subject):
                # counted; the checker then demands the per-chunk read-back instead of the written values
                if i in accepted and (a[2] != file_dtype(dl, ch["dtype"])
                                      or a[1] != rows_of(make_data(ch).astype(np_dtype_of(file_dtype(dl, ch["dtype"]))))):
                    self.inexact_text += 1
            chunks.append({"txt": txt, "back": back})
        return {"obs": obs, "table": sorted(table.values(), key=lambda e: e["joined"]), "chunks": chunks}

    # ---- printing
    def _op(self, o, ob):
        k = o["k"]
        d = cbytes((ob["text"] or "").encode())
        u = cbytes(canon_user(ast.literal_eval(o["hdr"]) if o.get("hdr") is not None else None))
        if k == "create":
            return "Create %s c%d %s %s" % (cdelim(o["dl"]), o["c"], d, u)
        if k == "again":
            return "WriteAgain c%d %s %s" % (o["c"], d, u)
        if k == "close":
            return "Close"
        if k == "reopen":
            return "Reopen %s" % cdelim(o["dl"])
        if k == "fn":
            return "FnWrite %s %s c%d %s %s" % (cbool(o["append"]), cdelim(o["dl"]), o["c"], d, u)
        return "Read"

    def _ans(self, ob, known=(), names=None):
        a = ob["ans"]
        if a[0] == "ok":
            return "OOk"
        if a[0] == "err":
            return "(OErr %s)" % a[1]
        dt = cdtype(a[2] or [])
        u = cbytes(bytes.fromhex(a[4]))
        if names is not None:
            dt = names.setdefault(("dt", dt), "t%d" % len(names)) if len(dt) > 40 else dt
            u = names.setdefault(("u", u), "t%d" % len(names)) if len(u) > 40 else u
        return "(ORead %s %s (Some %s) %s)" % (cz(a[1]), dt, self._rows_term(a[3], known), u)

    @staticmethod
    def _rows_term(rows, known):
        """the rows a read returned, written as a concatenation of row lists that are already bound
        (r<i> = rows of chunk i, b<i> = its text round trip) where they match EXACTLY, literal otherwise"""
        parts, p, lit = [], 0, []
        while p < len(rows):
            hit = None
            for nm, rl in known:
                if rl and rows[p:p + len(rl)] == rl:
                    hit = (nm, len(rl))
                    break
            if hit is None:
                lit.append(rows[p])
                p += 1
                continue
            if lit:
                parts.append(crows(lit))
                lit = []
            parts.append(hit[0])
            p += hit[1]
        if lit or not parts:
            parts.append(crows(lit))
        return parts[0] if len(parts) == 1 else "(" + " ++ ".join(parts) + ")"

    def term(self, c, out):
        lets, known, pay = [], [], {}
        for i, (ch, x) in enumerate(zip(c["chunks"], out["chunks"])):
            tnm = []
            for j, (dl, t) in enumerate(x["txt"]):
                raw = bytes.fromhex(t)
                lets.append("let x%d_%d : list byte := %s in" % (i, j, cbytes(raw)))
                pay.setdefault(raw, "x%d_%d" % (i, j))
                tnm.append("(%s, x%d_%d)" % (cbytes(dl.encode()), i, j))
            txt = "[" + "; ".join(tnm) + "]"
            pay.setdefault(b"".join(bytes.fromhex(rw) for rw in ch["rows"]), "(List.concat r%d)" % i)
            lets.append("let r%d := %s in" % (i, crows(ch["rows"])))
            known.append(("r%d" % i, ch["rows"]))
            if x["back"] == ch["rows"]:
                back = "r%d" % i
            else:
                back = "b%d" % i
                lets.append("let b%d := %s in" % (i, crows(x["back"])))
                known.append((back, x["back"]))
            lets.append("let c%d := mkc %s r%d %s %s in" % (i, cdtype(ch["dtype"]), i, back, txt))
        known.sort(key=lambda t: -len(t[1]))
        tnames = {}
        mt = "[" + "; ".join("(%s, (%s, %s, %s))" % (cbytes(e["joined"].encode()), cdelim(e["delim"] if isinstance(e["delim"], str) else None),
                                                      cdtype(e["dtype"] or []), cbytes(bytes.fromhex(e["u"])))
                             for e in out["table"]) + "]"
        ops = "[" + "; ".join(self._op(o, ob) for o, ob in zip(c["ops"], out["obs"])) + "]"
        # the bytes on disk after every operation: each distinct content is bound once; a content that
        # differs from the previous one only in its first 28 bytes and by an appended tail is printed
        # as that delta (the term still denotes exactly the observed bytes)
        names, prev, prevname, obs = {}, None, None, []
        for k, ob in enumerate(out["obs"]):
            h = ob["disk"]
            if h is None:
                dn = "None"
            else:
                if h not in names:
                    nm = "f%d" % len(names)
                    raw = bytes.fromhex(h)
                    if prev is not None and len(raw) >= len(prev) > 28 and raw[28:len(prev)] == prev[28:]:
                        head = prevname if raw[:28] == prev[:28] else "%s ++ skipn 28 %s" % (cbytes(raw[:28]), prevname)
                        tail = raw[len(prev):]
                        lit = "(%s ++ %s)" % (head, pay.get(tail) or cbytes(tail)) if tail else "(%s)" % head
                    else:
                        suf = max((t for t in pay if len(t) > 64 and raw.endswith(t)), key=len, default=None)
                        lit = cbytes(raw) if suf is None else "(%s ++ %s)" % (cbytes(raw[:len(raw) - len(suf)]), pay[suf])
                    lets.append("let %s : list byte := %s in" % (nm, lit))
                    names[h] = nm
                    prev, prevname = raw, nm
                else:
                    prev, prevname = bytes.fromhex(h), names[h]
                dn = "(Some %s)" % names[h]
            obs.append("(%s, %s)" % (self._ans(ob, known, tnames), dn))
        for (_, lit), nm in tnames.items():
            lets.append("let %s := %s in" % (nm, lit))
        return "%s v_history %s %s %s" % (" ".join(lets), mt, ops, "[" + "; ".join(obs) + "]")

    def show(self, c):
        return None

    def nontrivial(self, c, out):
        if c.get("adv"):
            return True
        accepted = sum(1 for o, ob in zip(c["ops"], out["obs"]) if o["k"] in ("create", "again", "fn") and ob["ans"][0] == "ok")
        reads = sum(1 for ob in out["obs"] if ob["ans"][0] == "read")
        return accepted >= 2 and reads >= 1 and len(c["chunks"][0]["dtype"]) >= 2

    def family(self, c):
        return c.get("family", "history")

    def classify(self, c, out, v):
        """a diagnostic label for a failing history (none of them is a known finding: the three defects
        found while building this package are repaired by fixes/C03; a regression is reported under its label)"""
        exists, is_open, fdt, fdl = False, False, None, None
        for o, ob in zip(c["ops"], out["obs"]):
            k, a = o["k"], ob["ans"]
            if k in ("fn", "reopen") and (k == "reopen" or o["append"]) and not exists and a[0] == "err":
                return "C03.append-to-missing-file-raises"
            if k == "read" and is_open and exists and a[0] == "err":
                return "C03.read-while-writer-open-fails"
            if k in ("fn", "again") and a[0] == "ok" and exists and fdt is not None and fdl is None and (k == "again" or o["append"]) \
                    and (k == "fn" or is_open) and c["chunks"][o["c"]]["dtype"] != fdt:
                return "C03.incompatible-binary-append-accepted"
            # bookkeeping (what the history did so far, as far as the labels need it)
            if k == "create" or (k == "fn" and not o["append"]) or (k in ("fn", "again") and not exists and a[0] == "ok"):
                if a[0] == "ok":
                    fdt, fdl = c["chunks"][o["c"]]["dtype"], (o.get("dl") if k != "again" else fdl)
            if k == "reopen" and not exists:
                fdl = o["dl"]
            exists = ob["disk"] is not None and len(ob["disk"]) > 0
            if k in ("create", "reopen"):
                is_open = a[0] == "ok"
            elif k in ("close", "fn"):
                is_open = False
        return None


# ----------------------------------------------------------------------------------------------
# constants of the source against constants of the model (fail-closed)
# ----------------------------------------------------------------------------------------------

def source_tie(ctx):
    from . import c03_translate
    try:
        k = c03_translate.extract(ctx.impl)
    except Exception as e:  # noqa
        ctx.obligation("source facts extracted (sfile.py ast, records.cpp regex)", False, str(e))
        ctx.violation("tie to the source broken: the facts the model relies on could not be extracted from sfile.py / records.cpp (%s)" % str(e)[:200],
                      {"kind": "source-tie", "error": str(e), "no_longer_checks": "C03 model shape/constants = source"}, found_input=False)
        return
    structural = []
    for nm, pred in c03_translate.EXPECTED:
        try:
            ok = bool(pred(k))
        except Exception:  # noqa
            ok = False
        ctx.obligation("source tie: " + nm, ok)
        if not ok:
            structural.append(nm)
    ctx.count("source_tie_structural_facts", len(c03_translate.EXPECTED))
    if structural:
        ctx.violation("tie to the source broken: the source no longer has the shape the model describes: %s" % "; ".join(structural)[:400],
                      {"kind": "source-tie", "facts": {kk: vv for kk, vv in k.items()}, "mismatch": structural,
                       "no_longer_checks": "C03 Model.v mirrors sfile.py / records.cpp (mode selection, order of calls, placement of the raise, "
                                           "row-count update, seek/flush in Write)"}, found_input=False)
    ns = [1, 9, 10, 12345, 10 ** 18, 2 ** 63 - 1]
    terms, names = [], []
    for n in ns:
        try:
            txt = (k["pyfmt"] % n).encode()
        except Exception:  # noqa
            txt = b"<format failed>"
        terms.append("v_tie_size %s %s" % (cz(n), cbytes(txt)))
        names.append("size_line %d ++ nl = %r %% %d (update_row_count)" % (n, k["fmt"], n))
    try:
        vals = core.coq_eval(os.path.join(ctx.work, "tie"), PRE, terms, tag="tie")
    except core.CoqEvalError as e:
        vals = ["1"] * len(terms)
        ctx.notes.append("tie evaluation failed: %s" % str(e)[-300:])
    bad = []
    for nm, v in zip(names, vals):
        ok = v.strip("() ").replace("%Z", "") == "0"
        ctx.obligation("source tie: " + nm, ok)
        if not ok:
            bad.append(nm)
    ctx.count("source_tie_constants", len(terms))
    if bad:
        ctx.violation("tie to the source broken: the model's constants differ from the source: %s" % "; ".join(bad)[:400],
                      {"kind": "source-tie", "constants": k, "mismatch": bad,
                       "no_longer_checks": "C03 model constants = source constants (in-place SIZE line of update_row_count)"},
                      found_input=False)


def gen_tie_step(ctx):
    """DESIGN 4.1: the decisions of the anchored code are TRANSLATED from the working tree into C03/Gen.v (c03_translate.generate)
    and the tie lemmas of C03/GenTie.v (Gen.x = what Model.v does) are re-checked.  The committed Gen.v is the translation of
    the last integrated tree: identical text -> the committed GenTie.vo is (re)built; different text -> Gen.v and GenTie.v are
    compiled in a scratch directory.  Nothing else depends on this step: the correspondence run always follows (no masking)."""
    import re
    import shutil
    import subprocess
    from . import c03_translate
    tdir = os.path.join(core.COQDIR, "theories", "C03")
    tie_src = open(os.path.join(tdir, "GenTie.v")).read()
    lemmas = [(m.group(1), tie_src[:m.start()].count("\n") + 1) for m in re.finditer(r"^Lemma (tie_\w+)", tie_src, re.M)]
    try:
        txt = c03_translate.generate(ctx.impl)
    except Exception as e:  # noqa
        ctx.obligation("C03/Gen.v regenerated from esutil/sfile.py + records.cpp (translator, fail-closed)", False, str(e))
        for nm, _ in lemmas:
            ctx.obligation("tie lemma GenTie.%s on the regenerated Gen.v" % nm, False, "translation failed")
        ctx.violation("tie to the source broken: the translator does not accept the anchored code any more (%s); the correspondence "
                      "below still runs against the hand model" % str(e)[:300],
                      {"kind": "translation", "error": str(e), "no_longer_checks": "C03/Gen.v = source; GenTie lemmas %s" % [n for n, _ in lemmas]},
                      found_input=False)
        return
    same = txt == open(os.path.join(tdir, "Gen.v")).read()
    ctx.obligation("C03/Gen.v regenerated from esutil/sfile.py + records.cpp (translator, fail-closed)%s" % (
        "" if same else " [differs from the committed translation]"), True)
    if same:
        ok, log = core.coq_make(["theories/C03/GenTie.vo"])
        bad_line = None
    else:
        work = os.path.join(ctx.work, "gen")
        os.makedirs(work, exist_ok=True)
        open(os.path.join(work, "Gen.v"), "w").write(txt)
        open(os.path.join(work, "GenTie.v"), "w").write(tie_src.replace("From EsVerif.C03 Require Import Gen.", "From C03Scratch Require Import Gen."))
        core.coq_make(["theories/C03/GenLib.vo", "theories/C03/Lemmas.vo"])
        flags = core.COQFLAGS + ["-Q", work, "C03Scratch"]
        ok, log, bad_line = True, "", None
        for f in ("Gen.v", "GenTie.v"):
            rc, out = core.coqc_file(os.path.join(work, f), 600, flags)
            if rc != 0:
                ok, log = False, out
                m = re.search(r'File "[^"]*%s", line (\d+)' % re.escape(f), out)
                bad_line = (f, int(m.group(1))) if m else (f, 0)
                break
    failing = None
    if not ok:
        if bad_line and bad_line[0] == "GenTie.v":
            failing = [nm for nm, ln in lemmas if ln <= bad_line[1]][-1:] or None
            failing = failing[0] if failing else None
    for nm, ln in lemmas:
        # lemmas after the first failing one were not reached
        state = ok or (failing is not None and ln < dict(lemmas)[failing])
        ctx.obligation("tie lemma GenTie.%s on the regenerated Gen.v" % nm, state, "" if state else log[-300:])
    ctx.count("tie lemmas (Gen.v = model)", len(lemmas))
    if not ok:
        ctx.violation("tie to the source broken: the decisions translated from the working tree are not the ones the model makes: %s; "
                      "the correspondence below still runs against the hand model" % (
                          ("lemma GenTie.%s no longer holds" % failing) if failing else "the regenerated Gen.v / GenTie.v does not compile"),
                      {"kind": "translation", "failing_lemma": failing, "log_tail": log[-1500:], "generated": txt if not same else None,
                       "no_longer_checks": "GenTie.%s (Gen = Model)" % (failing or "*")}, found_input=False)


class Witness(History):
    """the witnesses of one repaired defect (corpus/C03/fixed-*.json): an entry of its own, so that a
    regression of each defect is reported on its own VIOLATION line"""

    def __init__(self, name):
        History.__init__(self)
        self.name = name

    def cases(self, ctx, round=0):
        return []


def coqchk_step(ctx):
    import subprocess
    cmd = ["timeout", "1200", "coqchk", "-silent", "-o", "-Q", os.path.join(core.COQDIR, "theories"), "EsVerif", "EsVerif.C03.Properties"]
    r = subprocess.run(cmd, stdout=subprocess.PIPE, stderr=subprocess.STDOUT, text=True, cwd=core.COQDIR)
    ok = r.returncode == 0 and "Axioms: <none>" in r.stdout
    ctx.checker_cmds.append("coqchk -silent -o -Q coq/theories EsVerif EsVerif.C03.Properties")
    ctx.obligation("coqchk -o EsVerif.C03.Properties: exit 0, Axioms: <none>", ok, r.stdout[-400:])
    if not ok:
        ctx.violation("coqchk rejects C03/Properties.vo or reports axioms", {"kind": "coqchk", "log_tail": r.stdout[-2000:]}, found_input=False)


ENTRIES = [Witness("witness_append_missing"), Witness("witness_incompatible_binary_append"), Witness("witness_read_while_open")] \
    + ([Witness("witness_same_handle_read")] if SAME_HANDLE_READS else []) + [Witness("witness_mixed_case_size_key"), History()]

TRUSTED = [
    "Coq 8.16.1 kernel (coqc, vm_compute; no native_compute); every C03 theorem is closed under the global context (no axioms)",
    "hand-written model C03/Model.v (on top of C01/Framing.v) of sfile.py (SFile.open/close/write/_ensure_compatible_dtype/"
    "_write_header/_update_size, write(), read()), recfile/Util.py (Recfile.open/write/_count_nrows) and records.cpp (constructor, "
    "write_header_and_update_offset, update_row_count, Write) AFTER the repairs in fixes/C03; tied to the working tree by the "
    "correspondence run on every check (answer and file bytes after every operation of every history; bounded by the generators)",
    "assumed, monitored per created header (contract Spec.header_ok): pprint.pformat / eval / numpy.dtype — the text is framing-safe, "
    "eval of the joined text equals the formatted dict, its _DELIM / numpy.dtype(_DTYPE) / user entries are those of the operation",
    "not modelled (C04's subject): the text form of a chunk and its value round trip — per chunk and delimiter taken from the real "
    "code writing/reading that chunk ALONE; C03 proves and checks that appends concatenate these",
    "modelled, not verified: C stdio (fopen modes 'w'/'r+', rewind, fseek, fprintf, fwrite as operations on a byte list; buffering "
    "at the granularity of one SFile.write call), numpy dtype equality and descr, one writer at a time, no crash points",
    "python harness (harness/props/C03.py): generators, drivers, observation of pformat by shadowing the name `pprint` in "
    "esutil.sfile's namespace, canonical rendering of header dicts, literal printers, coqc evaluating Exec.v verdict terms",
]


def run(ctx, replay=None):
    ctx.rule = ("corpus + adversarial histories named in the quantifier (append to a missing file, several writes through one object with "
                "reads in between, appends by reopening in function and class form, overwrite, every family of incompatible append, ignored "
                "header/delimiter keywords, long 'w' and 'r+' handles, interleaved reopen/append/overwrite, chunks of 1 .. > 16384 rows) for "
                "binary and each text delimiter + seeded random histories (<= 8 ops, thorough <= 40); every operation is issued in a "
                "randomly chosen FORM (sfile.write / (data, file) order / esutil.io.write; SFile() / SFile.open on the same object / "
                "sfile.Open; keywords omitted or given as their defaults; the chunk as plain array, recarray, strided view, reversed "
                "view, read-only, 0-d, 2-d; reads through sfile.read, SFile.read, sf[:], io.read, read_header); each "
                "history is executed on the real esutil and evaluated in Coq (model answers and file bytes after every operation = real "
                "ones; verified checker hist_check on the real observations).  non-trivial: a named adversarial history, or >= 2 accepted "
                "writes, >= 1 read and >= 2 fields.  distinct by canonical JSON.")
    ctx.trusted = TRUSTED
    _TMP[0] = os.path.join(ctx.work, "files")
    # the case files of the big-chunk histories are long list literals: coqc (a child of this process) needs more
    # than the default 8 MB of stack to elaborate them
    try:
        import resource
        soft, hard = resource.getrlimit(resource.RLIMIT_STACK)
        resource.setrlimit(resource.RLIMIT_STACK, (hard, hard))
    except Exception as e:  # noqa
        ctx.notes.append("could not raise the stack limit: %s" % e)
    if core.proof_step(ctx, "C03", core.ALLOW_DISCRETE, extra_targets=("theories/C03/ExecText.vo",)) and replay is None:
        source_tie(ctx)
        if not ctx.quick():
            coqchk_step(ctx)
    if replay is None:
        try:
            gen_tie_step(ctx)
        except Exception as e:  # noqa  (never let the tie step mask the correspondence)
            ctx.obligation("tie step ran", False, str(e))
            ctx.violation("the tie step of C03 crashed: %s" % str(e)[:300], {"kind": "translation", "error": str(e)}, found_input=False)
    # histories are long terms: evaluate them in small shards, in parallel (the shard size of
    # runner.run_entry is not a parameter; it is narrowed for this process only)
    orig = core.coq_eval

    def small_shards(workdir, preamble, terms, ty="Z", shard=400, **kw):
        n = min(shard, ctx.n(10, 12))
        try:
            return orig(workdir, preamble, terms, ty=ty, shard=n, **kw)
        except core.CoqEvalError as e:
            # a coqc that dies without any message was killed (memory pressure on a shared machine, timeout):
            # evaluate once more in smaller shards; a genuine error in a case file has a message and is re-raised
            if e.text.strip():
                raise
            ctx.notes.append("a case shard was killed without output; re-evaluated in shards of %d" % max(2, n // 3))
            return orig(workdir + "_retry", preamble, terms, ty=ty, shard=max(2, n // 3), **kw)
    core.coq_eval = small_shards
    try:
        differential(ctx, PRE, ENTRIES, replay)
    finally:
        core.coq_eval = orig
    ent = History()
    for e in ENTRIES:
        ent.monitor_failures += e.monitor_failures
        ent.texts |= e.texts
        ent.nmonitored += e.nmonitored
        ent.inexact_text += e.inexact_text
        ent.same_size_rewrites += e.same_size_rewrites
        ent.enc_pairs.update(e.enc_pairs)
    ctx.count("monitor:header_ok headers", ent.nmonitored)
    ctx.count("overwrites by a file of the same byte size and other contents (observed)", ent.same_size_rewrites)
    ctx.count("accepted text chunks whose own value round trip is not exact (C04's subject; per-chunk read-back demanded instead)", ent.inexact_text)
    # the text the real writer printed for a chunk alone (what Exec.enc_of looks up) against C04's verified model of the
    # writer with C04's model of printf (TextRows.enc_text FmtModel.F_model): ties the [enc] of the evaluated histories to
    # the function the theorem C03_text_file_rows is about
    pairs = list(ent.enc_pairs.values())[:ctx.n(120, 400)]
    if pairs and replay is None:
        pre2 = PRE + "From EsVerif.C03 Require Import ExecText.\n"
        terms = ["v_enc %s (mkc %s %s (@nil (list byte)) [(%s, %s)])" % (cbytes(dl.encode()), cdtype(ch["dtype"]), crows(ch["rows"]),
                                                                         cbytes(dl.encode()), cbytes(bytes.fromhex(t))) for ch, dl, t in pairs]
        try:
            try:
                vals = orig(os.path.join(ctx.work, "enc"), pre2, terms, shard=20, tag="enc")
            except core.CoqEvalError as e:
                if "inconsistent assumptions" not in str(e):
                    raise
                # a library this one depends on (C04) was rebuilt by a concurrent check: rebuild and evaluate once more
                core.coq_make(["theories/C03/ExecText.vo"])
                vals = orig(os.path.join(ctx.work, "enc2"), pre2, terms, shard=20, tag="enc")
            bad = [(ch, dl) for (ch, dl, t), v in zip(pairs, vals) if v.strip("() ").replace("%Z", "") != "0"]
        except core.CoqEvalError as e:
            bad = [("<coq evaluation failed: %s>" % str(e)[-300:], None)]
        ctx.count("per-chunk texts compared with C04's writer model", len(pairs))
        ctx.obligation("text of %d (chunk, delimiter) pairs written alone by the real code = TextRows.enc_text F_model (C04's writer + printf "
                       "model), evaluated in Coq" % len(pairs), not bad)
        if bad:
            ctx.violation("tie broken: the text the real writer prints for a chunk differs from C04's model of the writer on %d chunk(s); "
                          "C03_text_file_rows then does not speak about the real files" % len(bad),
                          {"kind": "correspondence", "entry": "enc_text", "case": {"chunk": bad[0][0], "delim": bad[0][1]},
                           "no_longer_checks": "Exec.enc_of = TextRows.enc_text FmtModel.F_model on the chunks of this run"}, found_input=False)
    fails = list(ent.monitor_failures)
    ctx.obligation("contract monitor header_ok (b)(c): eval(joined text) == formatted dict; delimiter, numpy.dtype(_DTYPE), user "
                   "entries as created, on %d headers" % ent.nmonitored, not fails)
    texts = sorted(ent.texts)
    if texts:
        try:
            terms = ["v_text_ok %s" % cbytes(t.encode()) for t in texts]
            terms += ["v_joined %s %s" % (cbytes(t.encode()), cbytes(" ".join(t.split("\n")).encode())) for t in texts]
            vals = core.coq_eval(os.path.join(ctx.work, "mon"), PRE, terms, tag="mon")
            bad = [t for t, v in zip(texts + texts, vals) if v.strip("() ").replace("%Z", "") != "0"]
        except core.CoqEvalError as e:
            bad = ["<coq evaluation failed: %s>" % str(e)[-300:]]
        ctx.obligation("contract monitor header_ok (a): hdr_text_ok = true and joined text as in the model on %d distinct pformat texts "
                       "(evaluated in Coq)" % len(texts), not bad)
        for t in bad[:3]:
            fails.append({"pformat_text": t, "monitor": {"a": False}})
    for f in fails[:5]:
        ctx.violation("CONTRACT MONITOR header_ok failed: the header text the code produced is not framing-safe (a), does not evaluate "
                      "back to the formatted dict (b), or does not carry the delimiter / dtype / user entries of the operation that "
                      "created it (c) - a premise of the C03 theorems; (a)/(b) concern pformat/eval, (c) with a failing-input replay "
                      "next to it is a defect of _make_header: clauses %s" % sorted(k for k, v in f["monitor"].items() if not v),
                      dict(f, kind="contract-monitor", affected_theorems=["C03_history", "C03_step_refines"]), found_input=False)

"""Stub random generators for C19: they REPLAY given deviates, so that the Coq model and the
implementation see the same u's.  Two flavours, mirroring the call signatures esutil uses:

  StubLegacy   numpy.random.RandomState style: random_sample / random / rand / uniform /
               standard_normal / randn / normal
  StubNew      numpy.random.Generator style:   random / uniform / standard_normal / normal
               (no random_sample / rand / randn: code that needs the legacy-only names fails)

uniform(low, high, size) is  low + (high - low) * u  evaluated in binary64, which is numpy's own
definition for both generator families (checked on every run against the seeded real
generators through the `twin` deviates, see deviates_of()).
"""
import numpy as np


class _Replay:
    def __init__(self, deviates=(), normals=()):
        self._u = [float(x) for x in deviates]
        self._n = [float(x) for x in normals]
        self.iu = 0
        self.inn = 0
        self.calls = []

    def _take(self, pool, which, size):
        if size is None:
            shape, k = None, 1
        elif isinstance(size, (tuple, list)):
            shape, k = tuple(int(s) for s in size), int(np.prod(size, dtype=int)) if len(size) else 1
        else:
            shape, k = (int(size),), int(size)
        i = getattr(self, which)
        if i + k > len(pool):
            raise RuntimeError("stub generator exhausted: %d deviates requested, %d left" % (k, len(pool) - i))
        out = np.array(pool[i:i + k], dtype="f8")
        setattr(self, which, i + k)
        if shape is None:
            return float(out[0])
        return out.reshape(shape)

    def exhausted(self):
        return self.iu == len(self._u) and self.inn == len(self._n)

    # shared by both families
    def uniform(self, low=0.0, high=1.0, size=None):
        self.calls.append(("uniform", float(low), float(high), size))
        u = self._take(self._u, "iu", size)
        return low + (high - low) * u

    def standard_normal(self, size=None, *a, **k):
        self.calls.append(("standard_normal", size))
        return self._take(self._n, "inn", size)

    def normal(self, loc=0.0, scale=1.0, size=None):
        self.calls.append(("normal", float(loc), float(scale), size))
        return loc + scale * self._take(self._n, "inn", size)


class StubLegacy(_Replay):
    """numpy.random.RandomState look-alike"""
    def random_sample(self, size=None):
        self.calls.append(("random_sample", size))
        return self._take(self._u, "iu", size)

    random = random_sample
    sample = random_sample

    def rand(self, *shape):
        self.calls.append(("rand", shape))
        return self._take(self._u, "iu", shape if shape else None)

    def randn(self, *shape):
        self.calls.append(("randn", shape))
        return self._take(self._n, "inn", shape if shape else None)


class StubNew(_Replay):
    """numpy.random.Generator look-alike"""
    def random(self, size=None, dtype=np.float64, out=None):
        self.calls.append(("random", size))
        return self._take(self._u, "iu", size)


def make(kind, seed=None, deviates=()):
    """the generator object handed to esutil for a case"""
    if kind == "stub_legacy":
        return StubLegacy(deviates)
    if kind == "stub_new":
        return StubNew(deviates)
    if kind == "legacy":
        return np.random.RandomState(seed)
    if kind == "new":
        return np.random.default_rng(seed)
    raise ValueError(kind)


def deviates_of(kind, seed, counts):
    """the deviates a seeded REAL generator will hand out: a twin generator with the same seed is
    asked for the raw [0,1) doubles in the same block sizes (uniform(low, high, n) consumes exactly
    n doubles in both generator families)"""
    twin = make(kind, seed)
    out = []
    for n in counts:
        out.append([float(x) for x in (twin.random_sample(n) if kind == "legacy" else twin.random(n))])
    return out

"""C11 -- tiny fail-closed translator: constants of cosmolib.h / cosmolib.c / cosmology.py -> coq/theories/C11/Gen.v.

Everything that is not matched exactly once, or does not parse as the expected kind of literal,
raises TranslateError (the run then reports a broken tie).  Decimal literals are emitted twice: as the
exact rational they denote (for R) and as the binary64 value they are rounded to (hex float, PrimFloat).
"""
import ast
import os
import re
from fractions import Fraction

HEADER = """(* C11 -- constants REGENERATED on every run by harness/props/c11_translate.py from
   esutil/cosmology/cosmolib.h, cosmolib.c and cosmology.py (fail-closed regex / ast walk).
   Decimal literals appear twice: as the exact rational they denote (R) and as the binary64
   value the compiler / CPython rounds them to (PrimFloat hex literal). *)
From Coq Require Import Reals ZArith PrimFloat.
"""


class TranslateError(Exception):
    pass


_FLOAT_RE = r"[0-9]+\.?[0-9]*(?:[eE][-+]?[0-9]+)?|\.[0-9]+(?:[eE][-+]?[0-9]+)?"


def _one(pattern, text, what):
    m = re.findall(pattern, text, re.M)
    if len(m) != 1:
        raise TranslateError("%s: expected exactly one match, found %d" % (what, len(m)))
    return m[0]


def _dec(lit, what):
    """C / python decimal floating literal -> (Fraction exact, float rounded)"""
    lit = lit.strip()
    if not re.fullmatch(_FLOAT_RE, lit):
        raise TranslateError("%s: %r is not a plain decimal literal" % (what, lit))
    s = lit
    if s.endswith("."):
        s += "0"
    s = re.sub(r"\.([eE])", r".0\1", s)
    if s.startswith("."):
        s = "0" + s
    return Fraction(s), float(s)


def _r(fr):
    return "(%d)%%R" % fr.numerator if fr.denominator == 1 else "(%d / %d)%%R" % (fr.numerator, fr.denominator)


def _f(x):
    return "(%s)%%float" % float(x).hex()


VALUES = {}


def _both(name, lit, what, out, pair=False):
    fr, fl = _dec(lit, what)
    VALUES[name] = fl
    if fr <= 0:
        raise TranslateError("%s: non-positive constant" % what)
    if pair:   # also as an integer pair; the real constant is then literally IZR n / IZR d
        out.append("Definition %s_Q : Z * Z := (%d, %d)%%Z." % (name, fr.numerator, fr.denominator))
        out.append("Definition %s_R : R := (IZR %d / IZR %d)%%R." % (name, fr.numerator, fr.denominator))
    else:
        out.append("Definition %s_R : R := %s." % (name, _r(fr)))
    out.append("Definition %s_F : float := %s." % (name, _f(fl)))


def translate(impl_root):
    d = os.path.join(impl_root, "esutil", "cosmology")
    h = open(os.path.join(d, "cosmolib.h")).read()
    c = open(os.path.join(d, "cosmolib.c")).read()
    py = open(os.path.join(d, "cosmology.py")).read()
    out = []
    # ---- cosmolib.h
    for name in ("NPTS", "VNPTS"):
        v = _one(r"^\s*#\s*define\s+%s\s+(\S+)\s*$" % name, h, name)
        if not re.fullmatch(r"[0-9]+", v) or not (1 <= int(v) <= 64):
            raise TranslateError("%s: %r is not a small positive integer literal" % (name, v))
        out.append("Definition %s : nat := %d." % (name, int(v)))
        VALUES[name] = int(v)
    _both("C_CLIGHT", _one(r"^\s*#\s*define\s+CLIGHT\s+(\S+)\s*$", h, "CLIGHT"), "CLIGHT", out)
    _both("FOUR_PI_G_OVER_C_SQUARED", _one(r"^\s*#\s*define\s+FOUR_PI_G_OVER_C_SQUARED\s+(\S+)\s*$", h, "FOUR_PI_G"),
          "FOUR_PI_G_OVER_C_SQUARED", out, pair=True)
    _both("M_PI", _one(r"^\s*#\s*define\s+M_PI\s+(\S+)\s*$", h, "M_PI"), "M_PI", out)
    # ---- cosmolib.c : gauleg's EPS
    _both("GAULEG_EPS", _one(r"^\s*EPS\s*=\s*([^;]+);", c, "gauleg EPS"), "gauleg EPS", out)
    # ---- cosmology.py : _CLIGHT, constructor defaults, the factor in H0 = 100.0*h
    tree = ast.parse(py)
    clight = [n for n in tree.body if isinstance(n, ast.Assign) and len(n.targets) == 1 and
              isinstance(n.targets[0], ast.Name) and n.targets[0].id == "_CLIGHT"]
    if len(clight) != 1:
        raise TranslateError("_CLIGHT: expected exactly one module-level assignment")
    _both("PY_CLIGHT", _src(py, clight[0].value), "_CLIGHT", out)
    cls = [n for n in tree.body if isinstance(n, ast.ClassDef) and n.name == "Cosmo"]
    if len(cls) != 1:
        raise TranslateError("class Cosmo not found exactly once")
    init = [n for n in cls[0].body if isinstance(n, ast.FunctionDef) and n.name == "__init__"]
    if len(init) != 1:
        raise TranslateError("Cosmo.__init__ not found exactly once")
    a = init[0].args
    names = [x.arg for x in a.args]
    if names != ["self", "H0", "h", "flat", "omega_m", "omega_l", "omega_k"] or a.vararg or a.kwarg or a.kwonlyargs:
        raise TranslateError("Cosmo.__init__ signature changed: %r" % names)
    if len(a.defaults) != 6:
        raise TranslateError("Cosmo.__init__: expected 6 defaults")
    dflt = dict(zip(names[1:], a.defaults))
    _both("DEFAULT_H0", _src(py, dflt["H0"]), "default H0", out)
    for k in ("h", "omega_k"):
        if not (isinstance(dflt[k], ast.Constant) and dflt[k].value is None):
            raise TranslateError("default of %s is not None" % k)
    if not (isinstance(dflt["flat"], ast.Constant) and isinstance(dflt["flat"].value, bool)):
        raise TranslateError("default of flat is not a bool literal")
    out.append("Definition DEFAULT_FLAT : bool := %s." % ("true" if dflt["flat"].value else "false"))
    VALUES["DEFAULT_FLAT"] = bool(dflt["flat"].value)
    _both("DEFAULT_OMEGA_M", _src(py, dflt["omega_m"]), "default omega_m", out)
    _both("DEFAULT_OMEGA_L", _src(py, dflt["omega_l"]), "default omega_l", out)
    hs = []
    for n in ast.walk(init[0]):
        if (isinstance(n, ast.Assign) and len(n.targets) == 1 and isinstance(n.targets[0], ast.Name)
                and n.targets[0].id == "H0" and isinstance(n.value, ast.BinOp) and isinstance(n.value.op, ast.Mult)
                and isinstance(n.value.left, ast.Constant) and isinstance(n.value.right, ast.Name)
                and n.value.right.id == "h"):
            hs.append(n.value.left)
    if len(hs) != 1:
        raise TranslateError("H0 = <const> * h not found exactly once in Cosmo.__init__")
    _both("H_SCALE", _src(py, hs[0]), "H0 = const*h", out)
    return HEADER + "\n".join(out) + "\n"


def _src(text, node):
    s = ast.get_source_segment(text, node)
    if s is None:
        raise TranslateError("no source segment")
    return s


def regenerate(impl_root, gen_path):
    """Returns (changed: bool, text).  Writes only when the text differs (keeps the .vo cache valid).
    After the call VALUES holds the numeric values (binary64 / int / bool) of the constants."""
    VALUES.clear()
    txt = translate(impl_root)
    old = open(gen_path).read() if os.path.exists(gen_path) else None
    if old == txt:
        return False, txt
    tmp = gen_path + ".tmp.%d" % os.getpid()
    with open(tmp, "w") as f:
        f.write(txt)
    os.replace(tmp, gen_path)
    return True, txt

"""C11 -- tiny fail-closed translator: constants of cosmolib.h / cosmolib.c / cosmology.py -> coq/theories/C11/Gen.v.

Everything that is not matched exactly once, or does not parse as the expected kind of literal,
raises TranslateError (the run then reports a broken tie).  Decimal literals are emitted twice: as the
exact rational they denote (for R) and as the binary64 value they are rounded to (hex float, PrimFloat).
"""
import ast
import os
import re
from fractions import Fraction

HEADER = """(* C11 -- constants REGENERATED on every run by harness/props/c11_translate.py from
   esutil/cosmology/cosmolib.h, cosmolib.c and cosmology.py (fail-closed regex / ast walk).
   Decimal literals appear twice: as the exact rational they denote (R) and as the binary64
   value the compiler / CPython rounds them to (PrimFloat hex literal). *)
From Coq Require Import Reals ZArith List PrimFloat.
"""


class TranslateError(Exception):
    pass


_FLOAT_RE = r"[0-9]+\.?[0-9]*(?:[eE][-+]?[0-9]+)?|\.[0-9]+(?:[eE][-+]?[0-9]+)?"


def _one(pattern, text, what):
    m = re.findall(pattern, text, re.M)
    if len(m) != 1:
        raise TranslateError("%s: expected exactly one match, found %d" % (what, len(m)))
    return m[0]


def _dec(lit, what):
    """C / python decimal floating literal -> (Fraction exact, float rounded)"""
    lit = lit.strip()
    if not re.fullmatch(_FLOAT_RE, lit):
        raise TranslateError("%s: %r is not a plain decimal literal" % (what, lit))
    s = lit
    if s.endswith("."):
        s += "0"
    s = re.sub(r"\.([eE])", r".0\1", s)
    if s.startswith("."):
        s = "0" + s
    return Fraction(s), float(s)


def _r(fr):
    return "(%d)%%R" % fr.numerator if fr.denominator == 1 else "(%d / %d)%%R" % (fr.numerator, fr.denominator)


def _f(x):
    return "(%s)%%float" % float(x).hex()


VALUES = {}


def _both(name, lit, what, out, pair=False):
    fr, fl = _dec(lit, what)
    VALUES[name] = fl
    if fr <= 0:
        raise TranslateError("%s: non-positive constant" % what)
    if pair:   # also as an integer pair; the real constant is then literally IZR n / IZR d
        out.append("Definition %s_Q : Z * Z := (%d, %d)%%Z." % (name, fr.numerator, fr.denominator))
        out.append("Definition %s_R : R := (IZR %d / IZR %d)%%R." % (name, fr.numerator, fr.denominator))
    else:
        out.append("Definition %s_R : R := %s." % (name, _r(fr)))
    out.append("Definition %s_F : float := %s." % (name, _f(fl)))


def translate(impl_root):
    d = os.path.join(impl_root, "esutil", "cosmology")
    h = open(os.path.join(d, "cosmolib.h")).read()
    c = open(os.path.join(d, "cosmolib.c")).read()
    py = open(os.path.join(d, "cosmology.py")).read()
    out = []
    # ---- cosmolib.h
    for name in ("NPTS", "VNPTS"):
        v = _one(r"^\s*#\s*define\s+%s\s+(\S+)\s*$" % name, h, name)
        if not re.fullmatch(r"[0-9]+", v) or not (1 <= int(v) <= 64):
            raise TranslateError("%s: %r is not a small positive integer literal" % (name, v))
        out.append("Definition %s : nat := %d." % (name, int(v)))
        VALUES[name] = int(v)
    _both("C_CLIGHT", _one(r"^\s*#\s*define\s+CLIGHT\s+(\S+)\s*$", h, "CLIGHT"), "CLIGHT", out)
    _both("FOUR_PI_G_OVER_C_SQUARED", _one(r"^\s*#\s*define\s+FOUR_PI_G_OVER_C_SQUARED\s+(\S+)\s*$", h, "FOUR_PI_G"),
          "FOUR_PI_G_OVER_C_SQUARED", out, pair=True)
    _both("M_PI", _one(r"^\s*#\s*define\s+M_PI\s+(\S+)\s*$", h, "M_PI"), "M_PI", out)
    # ---- cosmolib.c : gauleg's EPS
    _both("GAULEG_EPS", _one(r"^\s*EPS\s*=\s*([^;]+);", c, "gauleg EPS"), "gauleg EPS", out)
    # ---- cosmology.py : _CLIGHT, constructor defaults, the factor in H0 = 100.0*h
    tree = ast.parse(py)
    clight = [n for n in tree.body if isinstance(n, ast.Assign) and len(n.targets) == 1 and
              isinstance(n.targets[0], ast.Name) and n.targets[0].id == "_CLIGHT"]
    if len(clight) != 1:
        raise TranslateError("_CLIGHT: expected exactly one module-level assignment")
    _both("PY_CLIGHT", _src(py, clight[0].value), "_CLIGHT", out)
    cls = [n for n in tree.body if isinstance(n, ast.ClassDef) and n.name == "Cosmo"]
    if len(cls) != 1:
        raise TranslateError("class Cosmo not found exactly once")
    init = [n for n in cls[0].body if isinstance(n, ast.FunctionDef) and n.name == "__init__"]
    if len(init) != 1:
        raise TranslateError("Cosmo.__init__ not found exactly once")
    a = init[0].args
    names = [x.arg for x in a.args]
    if names != ["self", "H0", "h", "flat", "omega_m", "omega_l", "omega_k"] or a.vararg or a.kwarg or a.kwonlyargs:
        raise TranslateError("Cosmo.__init__ signature changed: %r" % names)
    if len(a.defaults) != 6:
        raise TranslateError("Cosmo.__init__: expected 6 defaults")
    dflt = dict(zip(names[1:], a.defaults))
    _both("DEFAULT_H0", _src(py, dflt["H0"]), "default H0", out)
    for k in ("h", "omega_k"):
        if not (isinstance(dflt[k], ast.Constant) and dflt[k].value is None):
            raise TranslateError("default of %s is not None" % k)
    if not (isinstance(dflt["flat"], ast.Constant) and isinstance(dflt["flat"].value, bool)):
        raise TranslateError("default of flat is not a bool literal")
    out.append("Definition DEFAULT_FLAT : bool := %s." % ("true" if dflt["flat"].value else "false"))
    VALUES["DEFAULT_FLAT"] = bool(dflt["flat"].value)
    _both("DEFAULT_OMEGA_M", _src(py, dflt["omega_m"]), "default omega_m", out)
    _both("DEFAULT_OMEGA_L", _src(py, dflt["omega_l"]), "default omega_l", out)
    hs = []
    for n in ast.walk(init[0]):
        if (isinstance(n, ast.Assign) and len(n.targets) == 1 and isinstance(n.targets[0], ast.Name)
                and n.targets[0].id == "H0" and isinstance(n.value, ast.BinOp) and isinstance(n.value.op, ast.Mult)
                and isinstance(n.value.left, ast.Constant) and isinstance(n.value.right, ast.Name)
                and n.value.right.id == "h"):
            hs.append(n.value.left)
    if len(hs) != 1:
        raise TranslateError("H0 = <const> * h not found exactly once in Cosmo.__init__")
    _both("H_SCALE", _src(py, hs[0]), "H0 = const*h", out)
    out.append(_extract_parms(cls[0]))
    out.append(_copy_and_reduce(cls[0]))
    out.append(_dispatch(cls[0]))
    out.append(_c_wrappers(open(os.path.join(d, "cosmolib_pywrap.c")).read()))
    out.append(_c_scalar_functions(c, h))
    return HEADER + "\n".join(out) + "\n"


# ---------------------------------------------------------------------------------------------
# T-int style translation of Cosmo.extract_parms (python ast -> Gallina state transformer).
# State: flat : bool, omega_m omega_l : num, omega_k : option num (None = python None).
# Subset: `if/elif/else` on `omega_k is None`, `omega_k is not None`, `omega_k == 0.0`, `flat`;
# assignments of True/False to flat, of 0.0 / 1.0 / names / differences to omega_*; a final
# `return flat, omega_m, omega_l, omega_k`.  Anything else raises TranslateError.
# ---------------------------------------------------------------------------------------------
_ST = "(flat, om, ol, ok)"
_VAR = {"flat": "flat", "omega_m": "om", "omega_l": "ol", "omega_k": "ok"}


def _num(e):
    if isinstance(e, ast.Constant) and type(e.value) is float:
        if e.value == 0.0:
            return "zero"
        if e.value == 1.0:
            return "one"
        raise TranslateError("extract_parms: numeric literal %r outside the subset (0.0, 1.0)" % (e.value,))
    if isinstance(e, ast.Name) and e.id in ("omega_m", "omega_l"):
        return _VAR[e.id]
    if isinstance(e, ast.BinOp) and isinstance(e.op, ast.Sub):
        return "(sub %s %s)" % (_num(e.left), _num(e.right))
    raise TranslateError("extract_parms: expression outside the subset: %s" % ast.dump(e))


def _cond(e):
    if isinstance(e, ast.Name) and e.id == "flat":
        return "flat"
    if (isinstance(e, ast.Compare) and len(e.ops) == 1 and isinstance(e.left, ast.Name) and e.left.id == "omega_k"
            and len(e.comparators) == 1):
        op, rhs = e.ops[0], e.comparators[0]
        if isinstance(rhs, ast.Constant) and rhs.value is None:
            if isinstance(op, ast.IsNot):
                return "(match ok with Some _ => true | None => false end)"
            if isinstance(op, ast.Is):
                return "(match ok with Some _ => false | None => true end)"
        if isinstance(op, ast.Eq) and isinstance(rhs, ast.Constant) and type(rhs.value) is float and rhs.value == 0.0:
            # python: None == 0.0 is False
            return "(match ok with Some k => is_zero k | None => false end)"
    raise TranslateError("extract_parms: condition outside the subset: %s" % ast.dump(e))


def _stmt(st):
    """Gallina expression of the state after the statement, in terms of flat om ol ok"""
    if isinstance(st, ast.Assign) and len(st.targets) == 1 and isinstance(st.targets[0], ast.Name):
        t = st.targets[0].id
        if t == "flat":
            if isinstance(st.value, ast.Constant) and isinstance(st.value.value, bool):
                return "(%s, om, ol, ok)" % ("true" if st.value.value else "false")
            raise TranslateError("extract_parms: flat assigned a non-literal")
        if t == "omega_m":
            return "(flat, %s, ol, ok)" % _num(st.value)
        if t == "omega_l":
            return "(flat, om, %s, ok)" % _num(st.value)
        if t == "omega_k":
            return "(flat, om, ol, Some %s)" % _num(st.value)
        raise TranslateError("extract_parms: assignment to %r" % t)
    if isinstance(st, ast.If):
        return "(if %s then %s else %s)" % (_cond(st.test), _block(st.body), _block(st.orelse))
    if isinstance(st, ast.Expr) and isinstance(st.value, ast.Constant) and isinstance(st.value.value, str):
        return _ST      # docstring / bare string
    raise TranslateError("extract_parms: statement outside the subset: %s" % type(st).__name__)


def _block(body):
    out = ""
    for st in body:
        out += "let '%s := %s in " % (_ST, _stmt(st))
    return "(" + out + _ST + ")"


def _extract_parms(cls):
    fn = [n for n in cls.body if isinstance(n, ast.FunctionDef) and n.name == "extract_parms"]
    if len(fn) != 1:
        raise TranslateError("Cosmo.extract_parms not found exactly once")
    a = fn[0].args
    if [x.arg for x in a.args] != ["self", "omega_m", "omega_l", "omega_k", "flat"] or a.defaults or a.vararg or a.kwarg:
        raise TranslateError("extract_parms signature changed")
    body = list(fn[0].body)
    if not body or not isinstance(body[-1], ast.Return):
        raise TranslateError("extract_parms does not end in return")
    ret = body.pop().value
    if not (isinstance(ret, ast.Tuple) and [getattr(e, "id", None) for e in ret.elts] == ["flat", "omega_m", "omega_l", "omega_k"]):
        raise TranslateError("extract_parms does not return (flat, omega_m, omega_l, omega_k)")
    for n in ast.walk(ast.Module(body=body, type_ignores=[])):
        if isinstance(n, (ast.Return, ast.Raise, ast.For, ast.While, ast.Try, ast.With, ast.Call)):
            raise TranslateError("extract_parms: %s outside the subset" % type(n).__name__)
    return ("(* Cosmo.extract_parms, translated statement by statement (omega_k : option num, None = python None) *)\n"
            "Section GenExtract.\n  Context {num : Type}.\n"
            "  Variables (zero one : num) (sub : num -> num -> num) (is_zero : num -> bool).\n"
            "  Definition extract_parms_src (om ol : num) (ok : option num) (flat : bool) : bool * num * num * option num :=\n"
            "    %s.\nEnd GenExtract." % _block(body))


def _self_attr(e, private):
    """self._x (private) or self.x() (accessor) -> 'x'"""
    if private:
        if isinstance(e, ast.Attribute) and isinstance(e.value, ast.Name) and e.value.id == "self" and e.attr.startswith("_"):
            return e.attr[1:]
    else:
        if (isinstance(e, ast.Call) and not e.args and not e.keywords and isinstance(e.func, ast.Attribute)
                and isinstance(e.func.value, ast.Name) and e.func.value.id == "self"):
            return e.func.attr
    raise TranslateError("copy/_pars: expression outside the subset: %s" % ast.dump(e))


def _copy_and_reduce(cls):
    """copy() -> Cosmo(H0=self._H0, ...) and _pars -> (self.H0(), None, bool(self.flat()), ...) as Gallina tuples
    in constructor-argument order (H0, h, flat, omega_m, omega_l, omega_k); __copy__/__deepcopy__ must return
    self.copy() and __reduce__ (self.__class__, (self._pars))."""
    def one(name):
        fn = [n for n in cls.body if isinstance(n, ast.FunctionDef) and n.name == name]
        if len(fn) != 1:
            raise TranslateError("Cosmo.%s not found exactly once" % name)
        body = [s for s in fn[0].body if not (isinstance(s, ast.Expr) and isinstance(s.value, ast.Constant))]
        if len(body) != 1 or not isinstance(body[0], ast.Return):
            raise TranslateError("Cosmo.%s is not a single return" % name)
        return body[0].value
    order = ["H0", "h", "flat", "omega_m", "omega_l", "omega_k"]
    # copy
    c = one("copy")
    if not (isinstance(c, ast.Call) and isinstance(c.func, ast.Name) and c.func.id == "Cosmo" and not c.args):
        raise TranslateError("copy() is not Cosmo(keyword=...)")
    kw = {}
    for k in c.keywords:
        if k.arg not in order or k.arg in kw:
            raise TranslateError("copy(): keyword %r" % k.arg)
        kw[k.arg] = _self_attr(k.value, True)
    var = {"H0": "sH0", "flat": "sflat", "omega_m": "som", "omega_l": "sol", "omega_k": "sok"}
    parts = []
    for k in order:
        if k not in kw:
            if k != "h":
                raise TranslateError("copy(): %s not passed" % k)
            parts.append("None")
        elif k == "h":
            raise TranslateError("copy(): h passed")
        else:
            if kw[k] not in var:
                raise TranslateError("copy(): self._%s" % kw[k])
            parts.append(var[kw[k]])
    for nm in ("__copy__", "__deepcopy__"):
        r = one(nm)
        if _self_attr(r, False) != "copy":
            raise TranslateError("%s does not return self.copy()" % nm)
    copy_def = ("Definition copy_args_src {num : Type} (sH0 : num) (sflat : bool) (som sol : num) (sok : option num)\n"
                "  : num * option num * bool * num * num * option num := (%s)." % ", ".join(parts))
    # _pars / __reduce__
    p = one("_pars")
    if not (isinstance(p, ast.Tuple) and len(p.elts) == 6):
        raise TranslateError("_pars is not a 6-tuple")
    acc = {"H0": "rH0", "flat": "rflat", "omega_m": "rom", "omega_l": "rol", "omega_k": "rok"}
    parts = []
    for k, e in zip(order, p.elts):
        if isinstance(e, ast.Constant) and e.value is None:
            if k not in ("h", "omega_k"):
                raise TranslateError("_pars: None for %s" % k)
            parts.append("None")
            continue
        if k == "flat":
            if not (isinstance(e, ast.Call) and isinstance(e.func, ast.Name) and e.func.id == "bool" and len(e.args) == 1):
                raise TranslateError("_pars: flat is not bool(self.flat())")
            e = e.args[0]
        a = _self_attr(e, False)
        if a not in acc:
            raise TranslateError("_pars: self.%s()" % a)
        if (k in ("H0", "omega_m", "omega_l", "omega_k")) != (a != "flat"):
            raise TranslateError("_pars: type mismatch at %s" % k)
        v = acc[a]
        parts.append("Some %s" % v if k in ("h", "omega_k") else v)
    r = one("__reduce__")
    ok = (isinstance(r, ast.Tuple) and len(r.elts) == 2 and isinstance(r.elts[0], ast.Attribute) and r.elts[0].attr == "__class__"
          and isinstance(r.elts[1], ast.Attribute) and r.elts[1].attr == "_pars")
    if not ok:
        raise TranslateError("__reduce__ is not (self.__class__, self._pars)")
    red_def = ("Definition reduce_args_src {num : Type} (rH0 : num) (rflat : bool) (rom rol rok : num)\n"
               "  : num * option num * bool * num * num * option num := (%s)." % ", ".join(parts))
    return ("(* Cosmo.copy / __copy__ / __deepcopy__ and _pars / __reduce__: constructor arguments (H0, h, flat, omega_m,\n"
            "   omega_l, omega_k) of the new instance, in terms of the remembered inputs / the accessor values *)\n"
            + copy_def + "\n" + red_def)


# ---------------------------------------------------------------------------------------------
# the four-way scalar/array dispatch of Dc / Dm / Da / Dl / sigmacritinv and the two-way one of Ez_inverse / dV:
# python ast -> Gallina decision function over (isscalar a, isscalar b, len a != len b) returning the C entry point chosen
# 0 = scalar, 1 = _vec1 (array, scalar), 2 = _vec2 (scalar, array), 3 = _2vec, 4 = ValueError.  Checked on the way: the C
# method names, the argument order, `_as_c_order` applied to exactly the array arguments, `return` of the result.
# ---------------------------------------------------------------------------------------------
_CNAME = {"Dc": "Dc", "Dm": "Dm", "Da": "Da", "Dl": "Dl", "sigmacritinv": "scinv"}
_SUFFIX = {"": 0, "_vec1": 1, "_vec2": 2, "_2vec": 3}


def _isscalar_atom(e, a, b):
    """isscalar(x) / not isscalar(x) -> Gallina"""
    neg = False
    if isinstance(e, ast.UnaryOp) and isinstance(e.op, ast.Not):
        neg, e = True, e.operand
    if (isinstance(e, ast.Call) and isinstance(e.func, ast.Name) and e.func.id == "isscalar" and len(e.args) == 1
            and isinstance(e.args[0], ast.Name) and e.args[0].id in (a, b) and not e.keywords):
        v = "sa" if e.args[0].id == a else "sb"
        return "(negb %s)" % v if neg else v
    raise TranslateError("dispatch: condition atom outside the subset: %s" % ast.dump(e))


def _disp_cond(e, a, b):
    if isinstance(e, ast.BoolOp) and isinstance(e.op, ast.And):
        return "(" + " && ".join(_isscalar_atom(x, a, b) for x in e.values) + ")"
    return _isscalar_atom(e, a, b)


def _is_raise_value_error(st):
    return (isinstance(st, ast.Raise) and isinstance(st.exc, ast.Call) and isinstance(st.exc.func, ast.Name)
            and st.exc.func.id == "ValueError")


def _disp_branch(body, meth, a, b, res):
    """statements of one branch -> Gallina code expression"""
    conv, i = set(), 0
    while (i < len(body) and isinstance(body[i], ast.Assign) and len(body[i].targets) == 1
           and isinstance(body[i].targets[0], ast.Name) and isinstance(body[i].value, ast.Call)
           and isinstance(body[i].value.func, ast.Name) and body[i].value.func.id == "_as_c_order"):
        t = body[i].targets[0].id
        arg = body[i].value.args
        if t not in (a, b) or len(arg) != 1 or not isinstance(arg[0], ast.Name) or arg[0].id != t:
            raise TranslateError("dispatch %s: conversion of %r" % (meth, t))
        conv.add(t)
        i += 1
    rest = body[i:]
    if len(rest) == 1 and _is_raise_value_error(rest[0]) and not conv:
        return "4%nat"
    guard = None
    if len(rest) == 2 and isinstance(rest[0], ast.If):
        g = rest[0]
        t = g.test
        ok = (isinstance(t, ast.Compare) and len(t.ops) == 1 and isinstance(t.ops[0], ast.NotEq)
              and all(isinstance(x, ast.Call) and isinstance(x.func, ast.Name) and x.func.id == "len" and len(x.args) == 1
                      and isinstance(x.args[0], ast.Name) for x in (t.left, t.comparators[0]))
              and {t.left.args[0].id, t.comparators[0].args[0].id} == {a, b}
              and len(g.body) == 1 and _is_raise_value_error(g.body[0]) and not g.orelse)
        if not ok:
            raise TranslateError("dispatch %s: length guard outside the subset" % meth)
        guard = True
        rest = rest[1:]
    if not (len(rest) == 1 and isinstance(rest[0], ast.Assign) and len(rest[0].targets) == 1
            and isinstance(rest[0].targets[0], ast.Name)):
        raise TranslateError("dispatch %s: branch is not <conversions>; [length guard;] result = call" % meth)
    if res[0] is None:
        res[0] = rest[0].targets[0].id
    if rest[0].targets[0].id != res[0]:
        raise TranslateError("dispatch %s: result variable changes" % meth)
    c = rest[0].value
    ok = (isinstance(c, ast.Call) and isinstance(c.func, ast.Attribute) and isinstance(c.func.value, ast.Attribute)
          and c.func.value.attr == "_cosmo" and isinstance(c.func.value.value, ast.Name) and c.func.value.value.id == "self"
          and [getattr(x, "id", None) for x in c.args] == [a, b] and not c.keywords)
    if not ok:
        raise TranslateError("dispatch %s: call is not self._cosmo.<name>(%s, %s)" % (meth, a, b))
    name = c.func.attr
    base = _CNAME[meth]
    if not name.startswith(base) or name[len(base):] not in _SUFFIX:
        raise TranslateError("dispatch %s: C entry point %r" % (meth, name))
    code = _SUFFIX[name[len(base):]]
    need = {0: set(), 1: {a}, 2: {b}, 3: {a, b}}[code]
    if conv != need:
        raise TranslateError("dispatch %s: %s called with conversions %r" % (meth, name, sorted(conv)))
    if guard and code != 3:
        raise TranslateError("dispatch %s: length guard in front of %s" % (meth, name))
    return "(if ne then 4%%nat else %d%%nat)" % code if guard else "%d%%nat" % code


def _dispatch(cls):
    out = ["(* the scalar/array dispatch of the two-argument methods: (isscalar zmin, isscalar zmax, len zmin != len zmax) ->",
           "   0 scalar entry point, 1 _vec1, 2 _vec2, 3 _2vec, 4 ValueError *)"]
    for meth in ("Dc", "Dm", "Da", "Dl", "sigmacritinv"):
        fn = [n for n in cls.body if isinstance(n, ast.FunctionDef) and n.name == meth]
        if len(fn) != 1:
            raise TranslateError("Cosmo.%s not found exactly once" % meth)
        args = [x.arg for x in fn[0].args.args]
        if len(args) != 3 or args[0] != "self" or fn[0].args.defaults or fn[0].args.vararg or fn[0].args.kwarg:
            raise TranslateError("Cosmo.%s signature" % meth)
        a, b = args[1], args[2]
        body = [st for st in fn[0].body if not (isinstance(st, ast.Expr) and isinstance(st.value, ast.Constant))]
        if len(body) != 2 or not isinstance(body[0], ast.If) or not isinstance(body[1], ast.Return):
            raise TranslateError("Cosmo.%s is not `if ... ; return result`" % meth)
        res = [None]
        node, expr, depth = body[0], "", 0
        while True:
            expr += "if %s then %s else " % (_disp_cond(node.test, a, b), _disp_branch(node.body, meth, a, b, res))
            if len(node.orelse) == 1 and isinstance(node.orelse[0], ast.If):
                node = node.orelse[0]
                continue
            if not node.orelse:
                raise TranslateError("Cosmo.%s: if-chain without else" % meth)
            expr += _disp_branch(node.orelse, meth, a, b, res)
            break
        if not (isinstance(body[1].value, ast.Name) and body[1].value.id == res[0]):
            raise TranslateError("Cosmo.%s does not return the result of the chosen entry point" % meth)
        out.append("Definition dispatch_src_%s (sa sb ne : bool) : nat := (%s)%%bool." % (meth, expr))
    return "\n".join(out)


# ---------------------------------------------------------------------------------------------
# cosmolib_pywrap.c: every wrapper function -> which C function it calls and how it reads its arguments.
#   vector wrappers:  n = PyArray_SIZE(<obj>);  for (i=0; i<n; i++) { res[i] = F(self->cosmo, A, B); }   with A, B = v or v[i]
#   scalar wrappers:  <var> = F(self->cosmo, a, b);  return PyFloat_FromDouble(<var>);
# Anything else in the loop / a second loop / a second write to res / another statement using i fails closed.
# ---------------------------------------------------------------------------------------------
CFUN = ["ez_inverse", "Dc", "Dm", "Da", "Dl", "dV", "V", "scinv", "ez_inverse_integral"]
_WR_TWO = {"Dc": "Dc", "Dm": "Dm", "Da": "Da", "Dl": "Dl", "scinv": "scinv"}


def _c_functions(c):
    """name -> body text of every PyCosmoObject_<name>(...) { ... } definition"""
    out = {}
    for m in re.finditer(r"^PyCosmoObject_(\w+)\(struct PyCosmoObject\* self(?:, PyObject\* args)?\)\s*\{", c, re.M):
        depth, i = 1, m.end()
        while depth and i < len(c):
            depth += {"{": 1, "}": -1}.get(c[i], 0)
            i += 1
        if depth:
            raise TranslateError("pywrap: unbalanced braces in %s" % m.group(1))
        if m.group(1) in out:
            raise TranslateError("pywrap: %s defined twice" % m.group(1))
        out[m.group(1)] = c[m.end():i - 1]
    return out


def _strip_c_comments(t):
    return re.sub(r"//[^\n]*", "", re.sub(r"/\*.*?\*/", "", t, flags=re.S))


def _callee(rhs, what):
    """F(self->cosmo, args...) or the inlined Dc: self->cosmo->DH*ez_inverse_integral(self->cosmo, a, b)"""
    rhs = re.sub(r"\s+", "", rhs)
    m = re.fullmatch(r"self->cosmo->DH\*ez_inverse_integral\(self->cosmo,([^,()]+),([^,()]+)\)", rhs)
    if m:
        return "Dc", [m.group(1), m.group(2)]
    m = re.fullmatch(r"(\w+)\(self->cosmo((?:,[^,()]+)+)\)", rhs)
    if not m or m.group(1) not in CFUN:
        raise TranslateError("pywrap %s: right-hand side %r outside the subset" % (what, rhs))
    return m.group(1), m.group(2).lstrip(",").split(",")


def _parse_fmt(body, what):
    m = re.findall(r'PyArg_ParseTuple\(args,\s*\(char\*\)"(\w+)"((?:,\s*&\w+)+)\)', body)
    if len(m) != 1:
        raise TranslateError("pywrap %s: PyArg_ParseTuple not found exactly once" % what)
    fmt, names = m[0][0], re.findall(r"&(\w+)", m[0][1])
    if len(fmt) != len(names) or any(ch not in "dO" for ch in fmt):
        raise TranslateError("pywrap %s: format %r" % (what, fmt))
    return fmt, names


def _c_wrappers(c):
    fns = _c_functions(_strip_c_comments(c))
    lines = ["(* cosmolib_pywrap.c, translated: index of the C function called (0 ez_inverse, 1 Dc, 2 Dm, 3 Da, 4 Dl, 5 dV, 6 V,",
             "   7 scinv, 8 ez_inverse_integral), arg1 read as arg1[i], arg2 read as arg2[i], n = size of arg1, arguments in order *)"]
    b = lambda x: "true" if x else "false"   # noqa

    def vector(name, expect, nargs):
        what = name
        if name not in fns:
            raise TranslateError("pywrap: %s not found" % name)
        body = fns[name]
        fmt, names = _parse_fmt(body, what)
        if len(fmt) != nargs:
            raise TranslateError("pywrap %s: %d arguments" % (what, len(fmt)))
        base = [n_[:-3] if n_.endswith("Obj") else n_ for n_ in names]
        for ch, n_ in zip(fmt, names):
            if (ch == "O") != n_.endswith("Obj"):
                raise TranslateError("pywrap %s: format / variable mismatch" % what)
        size = re.findall(r"\bn\s*=\s*PyArray_SIZE\((\w+)\)\s*;", body)
        if len(size) != 1 or size[0] not in names or not size[0].endswith("Obj"):
            raise TranslateError("pywrap %s: n = PyArray_SIZE(<array argument>) not found exactly once" % what)
        for ch, n_, bs in zip(fmt, names, base):
            if ch == "O" and len(re.findall(r"\b%s\s*=\s*\(double\*\s*\)PyArray_DATA\(%s\)\s*;" % (bs, n_), body)) != 1:
                raise TranslateError("pywrap %s: %s = PyArray_DATA(%s) not found exactly once" % (what, bs, n_))
        if len(re.findall(r"resObj\s*=\s*PyArray_ZEROS\(1,\s*&n,\s*NPY_FLOAT64,\s*0\)\s*;", body)) != 1 or \
                len(re.findall(r"\bres\s*=\s*\(double\*\s*\)PyArray_DATA\(resObj\)\s*;", body)) != 1:
            raise TranslateError("pywrap %s: result is not a zero-initialised float64 array of n slots" % what)
        loops = re.findall(r"for\s*\(([^)]*)\)\s*\{([^{}]*)\}", body)
        if len(loops) != 1 or len(re.findall(r"\bfor\b|\bwhile\b|\bgoto\b", body)) != 1:
            raise TranslateError("pywrap %s: not exactly one loop" % what)
        if re.sub(r"\s+", "", loops[0][0]) != "i=0;i<n;i++":
            raise TranslateError("pywrap %s: loop header %r" % (what, loops[0][0]))
        stmts = [x.strip() for x in loops[0][1].split(";") if x.strip()]
        if len(stmts) != 1 or not re.match(r"res\[i\]\s*=", stmts[0]):
            raise TranslateError("pywrap %s: loop body is not the single statement res[i] = ...;" % what)
        if len(re.findall(r"\bres\s*\[", body)) != 1 or not re.search(r"return\s+resObj\s*;", body):
            raise TranslateError("pywrap %s: res written elsewhere / resObj not returned" % what)
        fn, args = _callee(stmts[0].split("=", 1)[1], what)
        if len(args) != nargs:
            raise TranslateError("pywrap %s: %s called with %d arguments" % (what, fn, len(args)))
        flags, order = [], True
        for k, a in enumerate(args):
            m = re.fullmatch(r"(\w+)(\[i\])?", a)
            if not m or m.group(1) not in base:
                raise TranslateError("pywrap %s: argument %r" % (what, a))
            pos = base.index(m.group(1))
            order = order and pos == k
            if (fmt[pos] == "O") != bool(m.group(2)):
                raise TranslateError("pywrap %s: %r read %s" % (what, a, "unindexed" if fmt[pos] == "O" else "indexed"))
            flags.append(bool(m.group(2)))
        if fn != expect:
            raise TranslateError("pywrap %s calls %s, expected %s" % (what, fn, expect))
        if nargs == 2:
            lines.append("Definition WRAP_%s : nat * bool * bool * bool * bool := (%d%%nat, %s, %s, %s, %s)." % (
                name, CFUN.index(fn), b(flags[0]), b(flags[1]), b(size[0] == names[0]), b(order)))
        else:
            lines.append("Definition WRAP1_%s : nat * bool := (%d%%nat, %s)." % (name, CFUN.index(fn), b(flags[0])))

    def scalar(name, expect, nargs):
        if name not in fns:
            raise TranslateError("pywrap: %s not found" % name)
        body = fns[name]
        fmt, names = _parse_fmt(body, name)
        if fmt != "d" * nargs:
            raise TranslateError("pywrap %s: format %r" % (name, fmt))
        if re.search(r"\bfor\b|\bwhile\b|\bgoto\b|\bstatic\b", body):
            raise TranslateError("pywrap %s: loop / static state in a scalar wrapper" % name)
        asg = re.findall(r"^\s*(\w+)\s*=\s*([^;=]+);", body, re.M)
        ret = re.findall(r"return\s+PyFloat_FromDouble\((\w+)\)\s*;", body)
        if len(asg) != 1 or len(ret) != 1 or asg[0][0] != ret[0]:
            raise TranslateError("pywrap %s: not `x = F(self->cosmo, ...); return PyFloat_FromDouble(x);`" % name)
        fn, args = _callee(asg[0][1], name)
        if fn != expect or len(args) != nargs or any(a not in names for a in args):
            raise TranslateError("pywrap %s: calls %s(%s)" % (name, fn, ", ".join(args)))
        lines.append("Definition SCALAR_%s : nat * bool := (%d%%nat, %s)." % (name, CFUN.index(fn), b(args == names)))

    for meth in ("Dc", "Dm", "Da", "Dl", "scinv"):
        scalar(meth, meth, 2)
        for suf in ("_vec1", "_vec2", "_2vec"):
            vector(meth + suf, meth, 2)
    for meth in ("ez_inverse", "dV"):
        scalar(meth, meth, 1)
        vector(meth + "_vec", meth, 1)
    scalar("V", "V", 2)
    scalar("ez_inverse_integral", "ez_inverse_integral", 2)
    return "\n".join(lines)


# ---------------------------------------------------------------------------------------------
# cosmolib.c: the scalar functions, translated statement by statement into Gallina over binary64 (PrimFloat).
# Subset: double declarations (with initialisers), `x = e;`, `x op= e;`, `if (cond) {..} [else {..}]` (a branch that is a
# single `return e;` becomes an early exit), one `for (i=0; i<N; i++) {..}` over the struct's tables, `return e;`.
# Expressions: + - * / unary minus, parentheses, double literals, locals, parameters, c->field, c->table[i], M_PI,
# FOUR_PI_G_OVER_C_SQUARED, sqrt(e), sinh(e), sin(e) and calls f(c, e, ..) of the other cosmolib functions, which become
# function PARAMETERS of the translated definition (the tie lemma instantiates them with the model's functions).
# ---------------------------------------------------------------------------------------------
_TOK = re.compile(r"\s*(?:(\d+\.?\d*(?:[eE][-+]?\d+)?|\.\d+(?:[eE][-+]?\d+)?)|([A-Za-z_]\w*)|(->|<=|>=|==|!=|\+=|-=|\*=|/=|\+\+|[-+*/()<>=!;,{}\[\]]))")
_FIELDS = {"DH": "DH", "omega_m": "om", "omega_l": "ol", "omega_k": "ok", "tcfac": "tcfac"}
_TABLES = {"x": ("NPTS", "xi"), "w": ("NPTS", "wi"), "vx": ("VNPTS", "xi"), "vw": ("VNPTS", "wi")}
_CALLS = {"ez_inverse": ("fez", 1), "ez_inverse_integral": ("fezint", 2), "Dc": ("fDc", 2), "Dm": ("fDm", 2), "Da": ("fDa", 2),
          "Dl": ("fDl", 2), "dV": ("fdV", 1)}
_LIBM = {"sinh": "fsinh", "sin": "fsin"}


def _ctokens(text):
    out, pos = [], 0
    text = _strip_c_comments(text)
    while pos < len(text):
        if text[pos:].strip() == "":
            break
        m = _TOK.match(text, pos)
        if not m:
            raise TranslateError("cosmolib.c: cannot tokenise %r" % text[pos:pos + 30])
        out.append(("num", m.group(1)) if m.group(1) else (("id", m.group(2)) if m.group(2) else ("op", m.group(3))))
        pos = m.end()
    return out


class _CP:
    """recursive-descent parser producing Gallina text directly"""

    def __init__(self, toks, what, params):
        self.t, self.i, self.what, self.params = toks, 0, what, set(params)
        self.locals, self.used_funs, self.used_fields, self.flat_used, self.tables = set(), [], [], False, set()

    def peek(self, k=0):
        return self.t[self.i + k] if self.i + k < len(self.t) else ("eof", "")

    def eat(self, kind=None, val=None):
        tk = self.peek()
        if (kind and tk[0] != kind) or (val is not None and tk[1] != val):
            raise TranslateError("cosmolib.c %s: expected %s %r, found %r" % (self.what, kind, val, tk))
        self.i += 1
        return tk

    def fail(self, msg):
        raise TranslateError("cosmolib.c %s: %s (at %r)" % (self.what, msg, self.t[self.i:self.i + 6]))

    # ---- expressions
    def expr(self):
        e = self.term()
        while self.peek() in (("op", "+"), ("op", "-")):
            op = self.eat()[1]
            e = "(%s %s %s)" % (e, op, self.term())
        return e

    def term(self):
        e = self.unary()
        while self.peek() in (("op", "*"), ("op", "/")):
            op = self.eat()[1]
            e = "(%s %s %s)" % (e, op, self.unary())
        return e

    def unary(self):
        if self.peek() == ("op", "-"):
            self.eat()
            return "(- %s)" % self.unary()
        return self.primary()

    def field(self):
        """after `c ->`"""
        f = self.eat("id")[1]
        if self.peek() == ("op", "["):
            self.eat()
            ix = self.eat("id")[1]
            self.eat("op", "]")
            if f not in _TABLES or ix != "i":
                self.fail("table access c->%s[%s]" % (f, ix))
            self.tables.add(f)
            return _TABLES[f][1]
        if f == "flat":
            self.flat_used = True
            return "flat"
        if f not in _FIELDS:
            self.fail("field c->%s" % f)
        if _FIELDS[f] not in self.used_fields:
            self.used_fields.append(_FIELDS[f])
        return _FIELDS[f]

    def primary(self):
        k, v = self.peek()
        if k == "num":
            self.eat()
            _fr, fl = _dec(v, self.what)
            return "(%s)" % float(fl).hex()
        if k == "op" and v == "(":
            self.eat()
            e = self.expr()
            self.eat("op", ")")
            return e
        if k == "id":
            self.eat()
            if v == "c" and self.peek() == ("op", "->"):
                self.eat()
                return self.field()
            if self.peek() == ("op", "("):
                self.eat()
                args = []
                while self.peek() != ("op", ")"):
                    if self.peek() == ("id", "c") and self.peek(1) in (("op", ","), ("op", ")")):
                        self.eat()
                        args.append("c")
                    else:
                        args.append(self.expr())
                    if self.peek() == ("op", ","):
                        self.eat()
                self.eat("op", ")")
                if v == "sqrt" and len(args) == 1:
                    return "(PrimFloat.sqrt %s)" % args[0]
                if v in _LIBM and len(args) == 1:
                    if _LIBM[v] not in self.used_funs:
                        self.used_funs.append(_LIBM[v])
                    return "(%s %s)" % (_LIBM[v], args[0])
                if v in _CALLS and args and args[0] == "c" and len(args) - 1 == _CALLS[v][1]:
                    if _CALLS[v][0] not in self.used_funs:
                        self.used_funs.append(_CALLS[v][0])
                    return "(%s %s)" % (_CALLS[v][0], " ".join(args[1:]))
                self.fail("call of %s/%d" % (v, len(args)))
            if v == "M_PI":
                return "M_PI_F"
            if v == "FOUR_PI_G_OVER_C_SQUARED":
                return "FOUR_PI_G_OVER_C_SQUARED_F"
            if v in self.params or v in self.locals:
                return v
            self.fail("identifier %s" % v)
        self.fail("expression")

    def cond(self):
        """( cond )"""
        self.eat("op", "(")
        if self.peek() == ("op", "!"):
            self.eat()
            self.eat("id", "c"); self.eat("op", "->"); self.eat("id", "flat")
            self.flat_used = True
            g = "(negb flat)"
        elif self.peek() == ("id", "c") and self.peek(2) == ("id", "flat"):
            self.eat(); self.eat("op", "->"); self.eat()
            self.flat_used = True
            g = "flat"
            if self.peek() == ("op", "!="):
                self.eat()
                if self.eat("num")[1] != "1":
                    self.fail("c->flat != <not 1>")
                g = "(negb flat)"
        else:
            a = self.expr()
            op = self.eat("op")[1]
            b = self.expr()
            if op == ">":
                g = "(%s <? %s)" % (b, a)
            elif op == "<":
                g = "(%s <? %s)" % (a, b)
            elif op == "<=":
                g = "(%s <=? %s)" % (a, b)
            elif op == ">=":
                g = "(%s <=? %s)" % (b, a)
            else:
                self.fail("comparison %s" % op)
        self.eat("op", ")")
        return g

    # ---- statements: returns (list of (kind, ...)) as an AST first, emission afterwards
    def lvalue(self):
        v = self.eat("id")[1]
        if v == "c" and self.peek() == ("op", "->"):
            self.eat()
            f = self.eat("id")[1]
            if f != "tcfac":
                self.fail("assignment to c->%s" % f)
            v = "tcfac"
        elif v not in self.locals:
            self.fail("assignment to undeclared %s" % v)
        return v

    def block(self):
        self.eat("op", "{")
        out = []
        while self.peek() != ("op", "}"):
            out += self.stmt()
        self.eat("op", "}")
        return out

    def stmt(self):
        k, v = self.peek()
        if (k, v) in (("id", "double"), ("id", "int")):
            self.eat()
            out = []
            while True:
                name = self.eat("id")[1]
                if v == "double":
                    self.locals.add(name)
                if self.peek() == ("op", "="):
                    self.eat()
                    e = self.expr()
                    if v == "double":
                        out.append(("set", name, e))
                if self.peek() == ("op", ","):
                    self.eat()
                    continue
                self.eat("op", ";")
                return out
        if (k, v) == ("id", "return"):
            self.eat()
            e = self.expr()
            self.eat("op", ";")
            return [("ret", e)]
        if (k, v) == ("id", "if"):
            self.eat()
            g = self.cond()
            a = self.block()
            b = []
            if self.peek() == ("id", "else"):
                self.eat()
                b = self.block()
            return [("if", g, a, b)]
        if (k, v) == ("id", "for"):
            self.eat()
            self.eat("op", "(")
            hdr = []
            while self.peek() != ("op", ")"):
                hdr.append(self.eat()[1])
            self.eat("op", ")")
            if len(hdr) != 10 or hdr[:4] != ["i", "=", "0", ";"] or hdr[4:6] != ["i", "<"] or hdr[7:] != [";", "i", "++"]:
                self.fail("loop header %r" % "".join(hdr))
            body = self.block()
            return [("for", hdr[6], body)]
        if k == "id":
            x = self.lvalue()
            op = self.eat("op")[1]
            e = self.expr()
            self.eat("op", ";")
            if op == "=":
                return [("set", x, e)]
            if op in ("+=", "-=", "*=", "/="):
                return [("set", x, "(%s %s %s)" % (x, op[0], e))]
            self.fail("assignment operator %s" % op)
        self.fail("statement")


def _assigned(stmts):
    out = []
    for st in stmts:
        if st[0] == "set" and st[1] not in out:
            out.append(st[1])
        elif st[0] == "if":
            for v in _assigned(st[2]) + _assigned(st[3]):
                if v not in out:
                    out.append(v)
        elif st[0] == "for":
            for v in _assigned(st[2]):
                if v not in out:
                    out.append(v)
    return out


def _emit(stmts, what, tail=None, scope=()):
    """statement list -> Gallina expression; `tail` is the expression of the enclosing tuple when the list does not return"""
    if not stmts:
        if tail is None:
            raise TranslateError("cosmolib.c %s: control reaches the end without return" % what)
        return tail
    st, rest = stmts[0], stmts[1:]
    if st[0] == "ret":
        if rest:
            raise TranslateError("cosmolib.c %s: statements after return" % what)
        return st[1]
    if st[0] == "set":
        return "let %s := %s in %s" % (st[1], st[2], _emit(rest, what, tail, tuple(scope) + (st[1],)))
    if st[0] == "if":
        _g, a, b = st[1], st[2], st[3]
        if len(a) == 1 and a[0][0] == "ret" and not b:          # early exit
            return "if %s then %s else (%s)" % (st[1], a[0][1], _emit(rest, what, tail, scope))
        vs = _assigned(a) + [v for v in _assigned(b) if v not in _assigned(a)]
        # a variable assigned in one branch only and not defined before the `if` is dead afterwards (or the build fails)
        vs = [v for v in vs if v in scope or (v in _assigned(a) and v in _assigned(b))]
        if not vs or any(s[0] == "ret" for s in a + b):
            raise TranslateError("cosmolib.c %s: if-statement outside the subset" % what)
        tup = vs[0] if len(vs) == 1 else "(%s)" % ", ".join(vs)
        pat = vs[0] if len(vs) == 1 else "'(%s)" % ", ".join(vs)
        return "let %s := (if %s then (%s) else (%s)) in %s" % (pat, st[1], _emit(a, what, tup, scope), _emit(b, what, tup, scope),
                                                            _emit(rest, what, tail, tuple(scope) + tuple(vs)))
    if st[0] == "for":
        vs = _assigned(st[2])
        carried = [v for v in vs if any(s[0] == "set" and s[1] == v and ("(%s " % v) in s[2] for s in st[2])]
        if len(carried) != 1 or any(s[0] != "set" for s in st[2]):
            raise TranslateError("cosmolib.c %s: loop body outside the subset" % what)
        acc = carried[0]
        body = _emit(st[2], what, acc, scope)
        return ("let %s := fold_left (fun %s xw => let xi := fst xw in let wi := snd xw in %s) (combine xs ws) %s in %s"
                % (acc, acc, body, acc, _emit(rest, what, tail, scope)))
    raise TranslateError("cosmolib.c %s: statement kind %r" % (what, st[0]))


def _c_function_body(c, name, sig):
    m = re.findall(r"^double\s+%s\s*\(\s*struct\s+cosmo\s*\*\s*c\s*%s\)\s*\{" % (name, sig), c, re.M)
    if len(m) != 1:
        raise TranslateError("cosmolib.c: definition of %s not found exactly once" % name)
    k = re.search(r"^double\s+%s\s*\(\s*struct\s+cosmo\s*\*\s*c\s*%s\)\s*\{" % (name, sig), c, re.M)
    depth, i = 1, k.end()
    while depth and i < len(c):
        depth += {"{": 1, "}": -1}.get(c[i], 0)
        i += 1
    return c[k.end() - 1:i]


def _c_scalar_functions(c, h):
    c = _strip_c_comments(c)
    lines = ["(* cosmolib.c, translated statement by statement (binary64; callees and libm functions are parameters) *)",
             "Section GenCosmolib.", "  Local Open Scope float_scope."]
    spec = [("ez_inverse", ["z"]), ("ez_inverse_integral", ["zmin", "zmax"]), ("Dc", ["zmin", "zmax"]), ("Dm", ["zmin", "zmax"]),
            ("Da", ["zmin", "zmax"]), ("Dl", ["zmin", "zmax"]), ("dV", ["z"]), ("V", ["zmin", "zmax"]), ("scinv", ["zl", "zs"])]
    for name, params in spec:
        sig = "".join(r",\s*double\s+%s\s*" % p for p in params)
        body = _c_function_body(c, name, sig)
        P = _CP(_ctokens(body), name, params)
        stmts = P.block()
        if P.peek()[0] != "eof":
            P.fail("trailing text")
        gal = _emit(stmts, name)
        args = []
        if P.flat_used:
            args.append("(flat : bool)")
        if P.used_fields:
            args.append("(%s : float)" % " ".join(f for f in ("DH", "om", "ol", "ok", "tcfac") if f in P.used_fields))
        if P.tables:
            bounds = {_TABLES[t][0] for t in P.tables}
            loops = [s for s in stmts if s[0] == "for"]
            if len(bounds) != 1 or len(loops) != 1 or loops[0][1] not in bounds or \
                    {_TABLES[t][1] for t in P.tables} != {"xi", "wi"}:
                raise TranslateError("cosmolib.c %s: loop bound / tables %r" % (name, sorted(P.tables)))
            for t in P.tables:     # the struct declares the table with the loop's bound
                if len(re.findall(r"double\s+%s\s*\[\s*%s\s*\]\s*;" % (t, _TABLES[t][0]), h)) != 1:
                    raise TranslateError("cosmolib.h: table %s is not declared with %s entries" % (t, _TABLES[t][0]))
            args.append("(xs ws : list float)")
        for f in P.used_funs:
            ar = 1 if f in ("fsinh", "fsin", "fez", "fdV") else 2
            args.append("(%s : %sfloat)" % (f, "float -> " * ar))
        args.append("(%s : float)" % " ".join(params))
        lines.append("  Definition %s_src %s : float :=\n    %s." % (name, " ".join(args), gal))
    # cosmo_new: the curvature factor
    m = re.findall(r"(c->tcfac\s*=\s*0\s*;.*?)\n\s*gauleg\(", c, re.S)
    if len(m) != 1:
        raise TranslateError("cosmolib.c: tcfac block of cosmo_new not found exactly once")
    for f in ("DH", "flat", "omega_m", "omega_l", "omega_k"):
        if len(re.findall(r"c->%s\s*=\s*%s\s*;" % (f, f), c)) != 1:
            raise TranslateError("cosmolib.c cosmo_new: c->%s = %s; not found exactly once" % (f, f))
    P = _CP(_ctokens("{" + m[0] + "}"), "cosmo_new", [])
    P.locals.add("tcfac")
    stmts = P.block()
    gal = _emit(stmts, "cosmo_new", "tcfac")
    lines.append("  Definition tcfac_src (flat : bool) (%s : float) : float :=\n    %s." % (" ".join(f for f in ("DH", "om", "ol", "ok") if f in P.used_fields), gal))
    lines.append("End GenCosmolib.")
    return "\n".join(lines)


def _src(text, node):
    s = ast.get_source_segment(text, node)
    if s is None:
        raise TranslateError("no source segment")
    return s


def regenerate(impl_root, gen_path):
    """Returns (changed: bool, text).  Writes only when the text differs (keeps the .vo cache valid).
    After the call VALUES holds the numeric values (binary64 / int / bool) of the constants."""
    VALUES.clear()
    txt = translate(impl_root)
    old = open(gen_path).read() if os.path.exists(gen_path) else None
    if old == txt:
        return False, txt
    tmp = gen_path + ".tmp.%d" % os.getpid()
    with open(tmp, "w") as f:
        f.write(txt)
    os.replace(tmp, gen_path)
    return True, txt

"""C19 -- random sky positions stay in their region; samplers invert the distribution
(DESIGN.md section 7, C19).

Two kinds of per-run evidence:
  * geometry (style R): every point returned by randcap / randsphere for given deviates gets
    generated Coq lemmas over the reals -- the property itself on the float output
    (`cap_point_fl`, `box_point_fl`) and the correspondence with the model (`cap_close`,
    `sphere_close`, `xyz_close`) -- closed by the introduction rules of C19/ProofsGeo.v plus
    `interval`.  A failed property certificate is followed by an attempt to PROVE its negation;
    only then is the case reported as a failing input.
  * samplers / discrete requirements (style Q): verdict terms evaluated by vm_compute on the exact
    dyadic values (C19/Exec.v) through the generic differential loop.
"""
import math
import os

import numpy as np

from .. import core
from ..core import cz, clist, cbool, cR, cQ
from ..runner import Entry, differential, corpus_cases
from . import c19_rng
from . import c19_translate

PRE_Q = ("From Coq Require Import QArith.\nFrom EsVerif.Common Require Import Base.\n"
         "From EsVerif.C19 Require Import ModelQ Spec Exec.\n")
PRE_R = ("From Coq Require Import Reals Lra.\nFrom Interval Require Import Tactic.\n"
         "From EsVerif.C19 Require Import Model Spec ProofsGeo ProofsGeo2.\nOpen Scope R_scope.\n")

STUBS = ("stub_legacy", "stub_new")
REALS = ("legacy", "new")


def _fin(xs):
    return all(math.isfinite(float(x)) for x in xs)


def cb(b):
    return "true" if b else "false"


def cqlist(xs):
    return clist(xs, cQ)


def cqpairs(ps):
    return "[" + "; ".join("(%s, %s)" % (cQ(a), cQ(b)) for a, b in ps) + "]"


# ======================================================================================
# geometry: case generation
# ======================================================================================

def _sphere_point(r):
    return r.random() * 360.0, math.degrees(math.asin(r.uniform(-1.0, 1.0)))


def _radius(r):
    return 10.0 ** r.uniform(-6.0, math.log10(180.0))


def _with_deviates(r, c, n, blocks):
    """fill in the deviates of a case: given explicitly for stub generators, read off a twin of
    the seeded real generator otherwise"""
    c["nrand"] = n
    if c["gen"] in REALS:
        c["seed"] = r.randrange(2 ** 31)
        c["dev"] = c19_rng.deviates_of(c["gen"], c["seed"], [n] * blocks)
    else:
        c["seed"] = None
    return c


def cap_cases(ctx, scale=1):
    r = ctx.rng
    cs = []

    def cap(ra, dec, rad, dorot, u, upsi, fam, gen=None):
        gen = gen or r.choice(STUBS)
        if ctx.quick():
            u, upsi = u[:1], upsi[:1]            # quick tier: the designated (edge) deviate only
        cs.append({"kind": "cap", "ra": float(ra), "dec": float(dec), "rad": float(rad), "dorot": bool(dorot),
                   "gen": gen, "seed": None, "nrand": len(u), "dev": [[float(x) for x in u], [float(x) for x in upsi]],
                   "family": fam})

    edge_u = [0.0, 1.0, 1e-300, 0.5, 1.0 - 2.0 ** -53]
    edge_p = [0.0, 0.25, 0.5, 0.75, 1.0 - 2.0 ** -53]
    # adversarial families named by the quantifier
    for dec in (90.0, -90.0):
        for rad in (1e-6, 1e-3, 1.0, 90.0, 180.0):
            cap(r.random() * 360, dec, rad, r.random() < 0.5, [1.0, r.random()], [r.random(), r.choice(edge_p)], "cap/pole")
    for dec in (89.9, -89.9, 89.89999999999999, -89.89999999999999, 89.95, 89.99999):
        cap(r.random() * 360, dec, _radius(r), False, [r.random(), 1.0], [r.random(), r.random()], "cap/near-pole-threshold")
    for k_, ra in enumerate((0.0, 360.0, 359.99999999999994, 1e-12, 180.0)):
        for dorot in (((False, True)[k_ % 2],) if ctx.quick() else (False, True)):
            cap(ra, r.uniform(-80, 80), r.choice([1e-6, 0.5, 30.0]), dorot, [r.random(), 1.0], [0.25, 0.75], "cap/seam")
    for rad in ((1e-6, 1e-5) if ctx.quick() else (1e-6, 1.7e-6, 1e-5, 1e-4)):
        for dorot in (False, True):
            ra, dec = _sphere_point(r)
            cap(ra, dec, rad, dorot, [1.0, r.random()], [r.random(), r.random()], "cap/tiny-radius")
    for rad in (179.999999, 180.0):
        for dorot in (False, True):
            ra, dec = _sphere_point(r)
            cap(ra, dec, rad, dorot, [1.0, r.random()], [r.random(), r.random()], "cap/antipode")
    # points that land on / beyond a pole
    for (dec, rad, up) in ((60.0, 30.0, 0.5), (-60.0, 30.0, 0.0), (60.0, 50.0, 0.5), (-45.0, 100.0, 0.0), (0.0, 90.0, 0.5)):
        for dorot in ((r.random() < 0.4,) if ctx.quick() else (False, True)):
            cap(r.random() * 360, dec, rad, dorot, [1.0], [up], "cap/lands-on-pole")
    for u in edge_u:
        for p in (edge_p[:2] if ctx.quick() else edge_p[:3]):
            ra, dec = _sphere_point(r)
            cap(ra, dec, _radius(r), r.random() < 0.3, [u], [p], "cap/edge-deviates")
    # input forms of the centre / radius / count (values exactly representable in every form, so each form denotes the
    # same reals): python float, python int, numpy float32/float64 scalars, 0-d and length-1 arrays; keyword omitted vs
    # given as its default; positional call; numpy integer count
    k = 0
    for form in CAP_FORMS:
        for polar in (False, True):
            ra = float(r.randrange(0, 360)) + (0.0 if form == "int" else 0.5)
            dec = (r.choice([90.0, -90.0, 89.9375]) if polar else float(r.randrange(-80, 80)) + 0.25)
            if form == "int":
                dec = r.choice([90.0, -90.0]) if polar else float(r.randrange(-80, 80))
            rad = r.choice([1.0, 2.0, 30.0]) if form == "int" else r.choice([0.5, 2.0, 30.0, 0.015625])
            cap(ra, dec, rad, (k % 3 == 0), [1.0, r.random()], [r.random(), r.random()], "cap/forms/" + form)
            cs[-1].update({"form": form, "kw": ("explicit", "omit", "positional")[k % 3], "nrand_np": k % 2 == 1})
            k += 1
    # exact special values: zero radius, negative zero centre, centre exactly on the equator / prime meridian with rotation
    cap(-0.0, -0.0, 1.0, False, [1.0], [r.random()], "cap/special-values")
    cap(-0.0, 45.0, 2.0, True, [1.0], [r.random()], "cap/special-values")
    cap(r.random() * 360, r.uniform(-80, 80), 0.0, False, [1.0], [r.random()], "cap/special-values")
    cap(r.random() * 360, 90.0, 0.0, False, [r.random()], [r.random()], "cap/special-values")
    cap(0.0, 0.0, 90.0, True, [1.0], [0.5], "cap/special-values")
    # HISTORY: earlier calls through the SAME centre / radius array objects, overwritten in place before the judged call
    for form in ("len1", "0d"):
        for mode in ("refill", "fresh-equal-object"):
            for polar in (False, True):
                def vals(pl):
                    return {"ra": float(r.randrange(0, 360)) + 0.5, "dec": r.choice([90.0, -90.0]) if pl else float(r.randrange(-80, 80)) + 0.25,
                            "rad": r.choice([0.5, 2.0, 30.0])}
                v = vals(polar)
                cap(v["ra"], v["dec"], v["rad"], False, [1.0], [r.random()], "cap/history/%s/%s" % (mode, form))
                hist = [dict(vals(r.random() < 0.5), dev=[[r.random()], [r.random()]], dorot=r.random() < 0.3) for _k in range(r.choice([1, 2]))]
                cs[-1].update({"form": form, "kw": "explicit", "nrand_np": False, "history": hist, "hist_mode": mode})
    # seeded random: stub and real generators, both branches
    for _ in range(int(ctx.n(8, 200) * scale)):
        ra, dec = _sphere_point(r)
        n = r.choice([1, 2] if ctx.quick() else [1, 2, 3])
        c = {"kind": "cap", "ra": ra, "dec": dec, "rad": _radius(r), "dorot": r.random() < 0.4,
             "gen": r.choice(STUBS + REALS), "family": "cap/random"}
        if c["gen"] in STUBS:
            c["dev"] = [[r.random() for _ in range(n)], [r.random() for _ in range(n)]]
        cs.append(_with_deviates(r, c, n, 2))
    return cs


def box_cases(ctx, scale=1):
    r = ctx.rng
    cs = []

    def box(ra_range, dec_range, u1, u2, fam, system="eq", gen=None):
        gen = gen or r.choice(STUBS)
        if ctx.quick() and fam in ("box/polar", "box/full-sphere") or (ctx.quick() and fam.startswith("box/forms")):
            u1, u2 = u1[-1:], u2[-1:]            # quick tier: the designated (edge) deviate only
        cs.append({"kind": "box", "ra_range": ra_range, "dec_range": dec_range, "system": system, "gen": gen,
                   "seed": None, "nrand": len(u1), "dev": [[float(x) for x in u1], [float(x) for x in u2]], "family": fam})

    e = [0.0, 1.0 - 2.0 ** -53, 0.5]
    box(None, None, [r.random(), 0.0], [r.random(), 0.0], "box/full-sphere-default")
    box([0.0, 360.0], [-90.0, 90.0], e, [1.0 - 2.0 ** -53, 0.0, r.random()], "box/full-sphere")
    box([0.0, 360.0], [-90.0, 90.0], [1.0], [1.0], "box/full-sphere-u=1")
    for _ in range(ctx.n(2, 3)):
        a, d = r.random() * 360, r.uniform(-89, 89)
        box([a, a], [d, d], [r.random()], [r.random()], "box/zero-width")
        box([a, a], [-90.0, 90.0], [r.random()], [r.random()], "box/zero-width-ra")
        box([0.0, 360.0], [d, d], [r.random()], [r.random()], "box/zero-width-dec")
    box([10.0, 35.0], [-25.0, 15.0], [r.random(), 0.0, 1.0], [r.random(), 1.0, 0.0], "box/docstring-example")
    for d0, d1 in (((89.0, 90.0), (-89.99999, -89.9999), (90.0, 90.0), (-90.0, -90.0)) if ctx.quick() else
                   ((89.0, 90.0), (-90.0, -89.5), (89.999, 89.9999), (-89.99999, -89.9999), (90.0, 90.0), (-90.0, -90.0),
                    (89.9999999, 90.0))):
        box([0.0, 360.0], [d0, d1], [r.random(), r.random()], [r.random(), r.choice([0.0, 1.0 - 2.0 ** -53])], "box/polar")
    box([359.9999, 360.0], [-1.0, 1.0], [r.random()], [r.random()], "box/seam")
    box([0.0, 1e-9], [-1e-9, 1e-9], [r.random()], [r.random()], "box/seam")
    # system='xyz' combined with latitude ranges that are NOT symmetric about the equator (a mirrored z passes every symmetric box)
    for d0, d1 in ((18.0, 25.0), (-60.0, -10.0), (0.0, 90.0), (-90.0, -89.0), (5.0, 5.0)):
        a0 = float(r.randrange(0, 180))
        # (a deviate that lands the point EXACTLY on a pole is left to system='eq': the xyz model certificate would need the
        # square root of an enclosure straddling zero)
        box([a0, a0 + r.choice([0.0, 30.0, 170.0, 180.0])], [d0, d1], [r.random()],
            [r.choice([1.0 - 2.0 ** -53, r.random()] + ([0.0] if d1 < 90.0 else []))], "box/xyz-asymmetric", system="xyz")
    box(None, [10.0, 80.0], [r.random()], [r.random()], "box/xyz-asymmetric", system="xyz")
    # input forms of the ranges / count: list, tuple, float64 / float32 / int64 arrays, python ints; `system` omitted vs
    # given as its default; positional call; numpy integer count
    k = 0
    for form in BOX_FORMS:
        a0, a1 = sorted((float(r.randrange(0, 361)), float(r.randrange(0, 361))))
        d0, d1 = sorted((float(r.randrange(-90, 91)), float(r.randrange(-90, 91))))
        if form in ("list", "tuple", "nd_f8", "nd_f4") and a1 < 360:
            a1 += 0.5
        box([a0, a1], [d0, d1], [r.random(), 0.0], [r.random(), 1.0 - 2.0 ** -53], "box/forms/" + form)
        cs[-1].update({"form": form, "kw": ("explicit", "omit", "positional")[k % 3], "nrand_np": k % 2 == 1})
        k += 1
    # HISTORY: earlier calls through the SAME range array objects (float64 / int64 arrays), overwritten in place
    for form in ("nd_f8", "nd_i8"):
        for mode in ("refill", "fresh-equal-object"):
            def rg():
                a0, a1 = sorted((float(r.randrange(0, 361)), float(r.randrange(0, 361))))
                d0, d1 = sorted((float(r.randrange(-90, 91)), float(r.randrange(-90, 91))))
                return {"ra_range": [a0, a1], "dec_range": [d0, d1]}
            v = rg()
            box(v["ra_range"], v["dec_range"], [r.random()], [r.choice([0.0, 1.0 - 2.0 ** -53])], "box/history/%s/%s" % (mode, form))
            hist = [dict(rg(), dev=[[r.random()], [r.random()]]) for _k in range(r.choice([1, 2]))]
            cs[-1].update({"form": form, "kw": "explicit", "nrand_np": False, "history": hist, "hist_mode": mode})
    for _ in range(int(ctx.n(8, 110) * scale)):
        a0, a1 = sorted((r.random() * 360, r.random() * 360))
        d0, d1 = sorted((r.uniform(-90, 90), r.uniform(-90, 90)))
        n = r.choice([1, 2])
        c = {"kind": "box", "ra_range": r.choice([[a0, a1], None]), "dec_range": r.choice([[d0, d1], [d0, d1], None]),
             "system": r.choice(["eq", "eq", "xyz"]), "gen": r.choice(STUBS + REALS), "family": "box/random"}
        if c["gen"] in STUBS:
            c["dev"] = [[r.random() for _ in range(n)], [r.random() for _ in range(n)]]
        cs.append(_with_deviates(r, c, n, 2))
    return cs


# ======================================================================================
# geometry: the real code
# ======================================================================================

CAP_FORMS = ("float", "int", "f32", "np64", "0d", "0d_f32", "len1")
BOX_FORMS = ("list", "tuple", "nd_f8", "nd_f4", "nd_i8", "pyint")


def _wrap(v, form):
    if form == "int":
        assert float(v) == int(v)
        return int(v)
    if form == "f32":
        assert float(np.float32(v)) == float(v)
        return np.float32(v)
    if form == "np64":
        return np.float64(v)
    if form == "0d":
        return np.array(v, dtype="f8")
    if form == "0d_f32":
        assert float(np.float32(v)) == float(v)
        return np.array(v, dtype="f4")
    if form == "len1":
        return np.array([v], dtype="f8")
    return float(v)


def _wrap_range(rg, form):
    if rg is None:
        return None
    if form == "tuple":
        return tuple(rg)
    if form == "nd_f8":
        return np.array(rg, dtype="f8")
    if form == "nd_f4":
        assert all(float(np.float32(v)) == float(v) for v in rg)
        return np.array(rg, dtype="f4")
    if form == "nd_i8":
        return np.array([int(v) for v in rg], dtype="i8")
    if form == "pyint":
        return [int(v) for v in rg]
    return list(rg)


def _fill(shared, key, value, form):
    """the argument object of a SEQUENCE of calls: created once, afterwards overwritten in place"""
    if key not in shared:
        shared[key] = value
    elif isinstance(shared[key], np.ndarray) and isinstance(value, np.ndarray) and shared[key].shape == value.shape:
        shared[key][...] = value
    else:
        shared[key] = value
    return shared[key]


def _call_geo(c, rng, shared=None):
    from esutil import coords
    form, kw = c.get("form"), c.get("kw", "explicit")
    n = np.int64(c["nrand"]) if c.get("nrand_np") else c["nrand"]
    if c["kind"] == "cap":
        args = [_wrap(c[k], form) for k in ("ra", "dec", "rad")]
        if shared is not None:
            args = [_fill(shared, k, a, form) for k, a in zip(("ra", "dec", "rad"), args)]
        keep = [a.copy() if isinstance(a, np.ndarray) else a for a in args]
        if kw == "positional":
            o = coords.randcap(n, args[0], args[1], args[2], True, c["dorot"], rng)
        elif kw == "omit" and not c["dorot"]:
            o = coords.randcap(n, args[0], args[1], args[2], get_radius=True, rng=rng)
        else:
            o = coords.randcap(n, args[0], args[1], args[2], get_radius=True, dorot=c["dorot"], rng=rng)
    else:
        args = [_wrap_range(c["ra_range"], form), _wrap_range(c["dec_range"], form)]
        if shared is not None:
            args = [_fill(shared, k, a, form) for k, a in zip(("ra_range", "dec_range"), args)]
        keep = [a.copy() if isinstance(a, np.ndarray) else a for a in args]
        if kw == "positional":
            o = coords.randsphere(n, args[0], args[1], c["system"], rng)
        elif kw == "omit" and c["system"] == "eq":
            o = coords.randsphere(n, ra_range=args[0], dec_range=args[1], rng=rng)
        else:
            o = coords.randsphere(n, ra_range=args[0], dec_range=args[1], system=c["system"], rng=rng)
    same = all((isinstance(a, np.ndarray) and a.dtype == k.dtype and a.shape == k.shape and np.array_equal(a, k))
               or (not isinstance(a, np.ndarray) and (a is k or a == k)) for a, k in zip(args, keep))
    return o, same


def run_geo(c):
    """run the REAL randcap / randsphere on a case; canonical output"""
    flat = [x for blk in c["dev"] for x in blk]
    rng = c19_rng.make(c["gen"], c.get("seed"), flat)
    try:
        shared = None
        same_h = True
        if c.get("history"):
            # earlier calls of the same process through the SAME argument objects (arrays refilled in place)
            shared = {}
            for h in c["history"]:
                hc = dict(c, **h)
                hc.pop("history", None)
                _o, sm = _call_geo(hc, c19_rng.make(c["gen"], None, [x for blk in h["dev"] for x in blk]), shared)
                same_h = same_h and sm
            if c.get("hist_mode") == "fresh-equal-object":
                shared = None
        o, same = _call_geo(c, rng, shared)
        same = same and same_h
        cols = [np.array(a, dtype="f8").ravel().copy() for a in o]
        out = {"ok": True, "ncols": len(cols), "lens": [int(a.size) for a in cols],
               "points": [[float(a[i]) for a in cols] for i in range(min(int(a.size) for a in cols))],
               "inputs_unchanged": bool(same)}
        if c.get("form") is not None or c["gen"] in STUBS:
            # OWNERSHIP: the caller overwrites the arrays it was handed back, then calls again with the same arguments and
            # an equal generator: the second result must be byte-identical to the first (no buffer shared with an earlier result)
            for a in o:
                if isinstance(a, np.ndarray) and a.flags.writeable and a.dtype.kind == "f":
                    a[...] = np.nan
            o2, _ = _call_geo(c, c19_rng.make(c["gen"], c.get("seed"), flat), shared)
            cols2 = [np.asarray(a, dtype="f8").ravel() for a in o2]
            out["repeat_identical"] = bool(len(cols2) == len(cols) and all(a.tobytes() == b.tobytes() for a, b in zip(cols, cols2)))
    except Exception as e:  # noqa
        out = {"ok": False, "err": core.errclass(e), "msg": "%s: %s" % (type(e).__name__, str(e)[:200])}
    if c["gen"] in STUBS:
        out["stub_exhausted"] = rng.exhausted()
        out["stub_calls"] = [cl[0] for cl in rng.calls]
    return out


# ======================================================================================
# geometry: generated lemmas
# ======================================================================================

HAV = "unfold hav, d2r, slack, Rsqr; interval with (i_prec 110)"
LRA_S = "unfold slack; lra"
VEC = ("cbv beta iota zeta delta [cap_vec cap_vec_rot dot eq2xyz thetaphi2xyz uniform d2r vslack]; "
       "interval with (i_prec 110)")
RADC = "unfold slack; interval with (i_prec 80)"
UNIT = "unfold unit_dev; lra"
SKY = "unfold on_sky; cbn [fst snd]; lra"
NOSKY = "unfold on_sky in Hsky; cbn [fst snd] in Hsky; lra"


def _is_polar(c):
    return c["dorot"] or c["dec"] >= 89.9 or c["dec"] <= -89.9


def cap_lemmas(c, i, pt):
    ra, dec, rad = c["ra"], c["dec"], c["rad"]
    u, up = c["dev"][0][i], c["dev"][1][i]
    ra2, dec2, r = pt
    outt = "(%s, %s, %s)" % (cR(ra2), cR(dec2), cR(r))
    st1 = "cap_point_fl %s %s %s %s /\\ on_sky (%s, %s)" % (cR(ra), cR(dec), cR(rad), outt, cR(ra2), cR(dec2))
    alt = "first [left; %s | right; split; [%s | %s]]" % (LRA_S, LRA_S, HAV)
    pr1 = ("split; [apply cap_point_fl_intro; [lra | first [left; %s | right; %s] | %s | %s] | %s]."
           % (LRA_S, HAV, alt, alt, SKY))
    st2 = "cap_close (randcap_R %s %s %s %s %s %s) %s" % (cb(c["dorot"]), cR(ra), cR(dec), cR(rad), cR(u), cR(up), outt)
    if _is_polar(c):
        side = "left; reflexivity" if c["dorot"] else "right; unfold pole_thr; lra"
        pr2 = "apply cap_close_rot_intro'; [%s | %s | %s]." % (side, VEC, RADC)
    else:
        pr2 = "apply cap_close_unrot_intro; [unfold pole_thr; lra | %s | %s]." % (VEC, RADC)
    # negation of the property certificate (only compiled when the certificate failed / is predicted to fail)
    h2 = "unfold hav, d2r, slack, Rsqr; interval with (i_prec 110)"
    br = "split; [unfold slack; lra | %s]" % h2
    neg = ("~ (" + st1 + ")",
           "intros [Hcap Hsky]; first [ %s | revert Hcap; apply cap_point_fl_refute; first [ left; %s | right; left; %s "
           "| right; right; left; %s | right; right; right; left; unfold slack; lra "
           "| right; right; right; right; unfold slack; lra ] ]." % (NOSKY, br, br, br))
    return (st1, pr1), (st2, pr2), neg


def _box(c):
    a = c["ra_range"] if c["ra_range"] is not None else [0.0, 360.0]
    d = c["dec_range"] if c["dec_range"] is not None else [-90.0, 90.0]
    return float(a[0]), float(a[1]), float(d[0]), float(d[1])


def box_lemmas(c, i, pt):
    a0, a1, d0, d1 = _box(c)
    u1, u2 = c["dev"][0][i], c["dev"][1][i]
    bx = "%s %s %s %s" % (cR(a0), cR(a1), cR(d0), cR(d1))
    vb = "unfold valid_box; lra"
    if c["system"] == "xyz":
        x, y, z = pt
        st2 = "xyz_close (randsphere_xyz_R %s %s %s) (%s, %s, %s)" % (bx, cR(u1), cR(u2), cR(x), cR(y), cR(z))
        iv = "unfold uniform, d2r, sinslack; interval with (i_prec 80)"
        pr2 = "apply xyz_close_intro; [%s | %s | cbv zeta; split; [%s | split; [%s | %s]]]." % (vb, UNIT, iv, iv, iv)
        # the property on an xyz output (C19_box_xyz_unit_vector_in_box on floats): unit vector whose z = sin(dec) lies
        # between the sines of the latitude limits, and, for boxes at most 180 deg wide, whose (x, y) lies in the longitude wedge
        pt3 = "(%s, %s, %s)" % (cR(x), cR(y), cR(z))
        narrow = (a1 - a0) <= 180.0
        st1 = "box_xyz_fl %s %s %s" % (cR(d0), cR(d1), pt3) + (" /\\ lon_halfplanes_fl %s %s %s" % (cR(a0), cR(a1), pt3) if narrow else "")
        ivx = "unfold d2r, sinslack; interval with (i_prec 80)"
        pz = "unfold box_xyz_fl; split; [%s | split; %s]" % (ivx, ivx)
        pl = "unfold lon_halfplanes_fl; split; %s" % ivx
        pr1 = ("split; [%s | %s]." % (pz, pl)) if narrow else (pz + ".")
        nz = ("unfold box_xyz_fl in Hz; destruct Hz as [Hn [Hlo Hhi]]; first "
              "[ assert (Hc : %s < sin (d2r %s) - sinslack) by (%s); lra "
              "| assert (Hc : sin (d2r %s) + sinslack < %s) by (%s); lra "
              "| apply Rabs_le_inv in Hn; destruct Hn as [Hn1 Hn2]; first "
              "[ assert (Hc : 4 * sinslack < %s * %s + %s * %s + %s * %s - 1) by (%s); lra "
              "| assert (Hc : %s * %s + %s * %s + %s * %s - 1 < - (4 * sinslack)) by (%s); lra ] ]"
              % (cR(z), cR(d0), ivx, cR(d1), cR(z), ivx, cR(x), cR(x), cR(y), cR(y), cR(z), cR(z), ivx,
                 cR(x), cR(x), cR(y), cR(y), cR(z), cR(z), ivx))
        nl = ("unfold lon_halfplanes_fl in Hl; destruct Hl as [Hl1 Hl2]; first "
              "[ assert (Hc : %s * cos (d2r %s) - %s * sin (d2r %s) < - sinslack) by (%s); lra "
              "| assert (Hc : %s * sin (d2r %s) - %s * cos (d2r %s) < - sinslack) by (%s); lra ]"
              % (cR(y), cR(a0), cR(x), cR(a0), ivx, cR(x), cR(a1), cR(y), cR(a1), ivx))
        neg = ("~ (" + st1 + ")", ("intros [Hz Hl]; first [ %s | %s ]." % (nz, nl)) if narrow else ("intros Hz; %s." % nz))
        if abs(z) > 0.998:
            # within ~3.6 deg of a pole x and y are sqrt(1 - v^2)-conditioned (an error of 1 ulp in the sampled v moves them by
            # 1e-16 / rxy > sinslack): the MODEL certificate in the components is borderline and skipped (counted); the property
            # certificate above (z range, unit norm, longitude half-planes) still applies, as does system='eq' at the poles
            return (st1, pr1), None, neg
        return (st1, pr1), (st2, pr2), neg
    ra, dec = pt
    st1 = "box_point_fl %s (%s, %s) /\\ on_sky (%s, %s)" % (bx, cR(ra), cR(dec), cR(ra), cR(dec))
    sv = "unfold d2r, sinslack; interval with (i_prec 80)"
    pr1 = ("split; [apply box_point_fl_intro; [unfold slack; lra | first [left; %s | right; %s] "
           "| first [left; %s | right; %s]] | %s]." % (LRA_S, sv, LRA_S, sv, SKY))
    st2 = "sphere_close (randsphere_R %s %s %s) (%s, %s)" % (bx, cR(u1), cR(u2), cR(ra), cR(dec))
    pr2 = ("apply sphere_close_intro; [%s | %s | unfold uniform, slack; interval with (i_prec 80) "
           "| unfold uniform, d2r, sinslack; interval with (i_prec 80)]." % (vb, UNIT))
    both = "split; [unfold slack; lra | %s]" % sv
    neg = ("~ (" + st1 + ")",
           "intros [Hbox Hsky]; first [ %s | revert Hbox; apply box_point_fl_refute; first [ left; unfold slack; lra "
           "| right; left; unfold slack; lra | right; right; left; %s | right; right; right; %s ] ]." % (NOSKY, both, both))
    return (st1, pr1), (st2, pr2), neg


# ---- pre-screen (ROUTING ONLY): an 80-bit evaluation of what each certificate states.  Items
# predicted to hold are compiled in shards; items predicted to fail are compiled one by one together
# with their negation, at most SUSPECT_MAX per kind and role, the others being recorded as failed
# obligations without compiling them (the violation is reported through the compiled ones).  The
# prediction never accepts anything: every accepted certificate is checked by coqc.
LD = np.longdouble
PI_L = LD("3.14159265358979323846264338327950288")
SLACK, VSLACK, SINSLACK = LD(1e-9), LD(15) / LD(10) ** 23, LD(4) / LD(10) ** 15
SUSPECT_MAX = 3
GEO_PAR = 10


def _d2r(x):
    return LD(x) * PI_L / LD(180)


def _vec(ra, dec):
    a, d = _d2r(ra), _d2r(dec)
    return np.array([np.cos(a) * np.cos(d), np.sin(a) * np.cos(d), np.sin(d)], dtype=LD)


def _sep_l(ra1, dec1, ra2, dec2):
    h = (np.sin(_d2r(LD(dec2) - LD(dec1)) / 2) ** 2
         + np.cos(_d2r(dec1)) * np.cos(_d2r(dec2)) * np.sin(_d2r(LD(ra2) - LD(ra1)) / 2) ** 2)
    h = min(max(h, LD(0)), LD(1))
    return 2 * np.arcsin(np.sqrt(h)) * LD(180) / PI_L


def _model_vec(c, i):
    ra, dec, rad = LD(c["ra"]), LD(c["dec"]), LD(c["rad"])
    u, up = LD(c["dev"][0][i]), LD(c["dev"][1][i])
    r = _d2r(np.sqrt(u) * rad)
    psi = 2 * PI_L * up
    if _is_polar(c):                               # ProofsGeo.cap_vec_rot
        al, de = _d2r(ra), _d2r(dec)
        a, b, cc = np.sin(r) * np.sin(psi), np.cos(r), -(np.sin(r) * np.cos(psi))
        m2, m3 = np.cos(de) * b - np.sin(de) * cc, np.sin(de) * b + np.cos(de) * cc
        return np.array([a * np.sin(al) + m2 * np.cos(al), -a * np.cos(al) + m2 * np.sin(al), m3], dtype=LD)
    th, ph = _d2r(dec + 90), _d2r(ra)              # ProofsGeo.cap_vec
    ct2 = np.cos(th) * np.cos(r) + np.sin(th) * np.sin(r) * np.cos(psi)
    x = np.sin(th) * np.cos(r) - np.cos(th) * np.sin(r) * np.cos(psi)
    y = np.sin(r) * np.sin(psi)
    return np.array([x * np.cos(ph) + y * np.sin(ph), x * np.sin(ph) - y * np.cos(ph), -ct2], dtype=LD)


def predict(c, i, pt, role):
    """True when the certificate is expected to be provable"""
    try:
        if c["kind"] == "cap":
            ra2, dec2, r = pt
            if role == "property":
                s = _sep_l(c["ra"], c["dec"], ra2, dec2)
                return bool(s <= LD(c["rad"]) + SLACK and abs(s - LD(r)) <= SLACK
                            and 0.0 <= ra2 <= 360.0 and -90.0 <= dec2 <= 90.0)
            d = _model_vec(c, i) - _vec(ra2, dec2)
            return bool(np.dot(d, d) / 2 <= VSLACK
                        and abs(np.sqrt(LD(c["dev"][0][i])) * LD(c["rad"]) - LD(r)) <= SLACK)
        a0, a1, d0, d1 = _box(c)
        u1, u2 = LD(c["dev"][0][i]), LD(c["dev"][1][i])
        lo, hi = np.cos(_d2r(LD(90) + LD(d1))), np.cos(_d2r(LD(90) + LD(d0)))
        v = lo + (hi - lo) * u2
        mra = LD(a0) + (LD(a1) - LD(a0)) * u1
        if c["system"] == "xyz" and role == "property":
            x, y, z = (LD(t) for t in pt)
            ok = (abs(x * x + y * y + z * z - 1) <= 4 * SINSLACK
                  and np.sin(_d2r(d0)) - SINSLACK <= z <= np.sin(_d2r(d1)) + SINSLACK)
            if a1 - a0 <= 180.0:
                ok = ok and (-SINSLACK <= y * np.cos(_d2r(a0)) - x * np.sin(_d2r(a0))
                             and -SINSLACK <= x * np.sin(_d2r(a1)) - y * np.cos(_d2r(a1)))
            return bool(ok)
        if c["system"] == "xyz":
            x, y, z = pt
            q = np.sqrt(1 - v * v)
            return bool(abs(np.cos(_d2r(mra)) * q - LD(x)) <= SINSLACK and abs(np.sin(_d2r(mra)) * q - LD(y)) <= SINSLACK
                        and abs(-v - LD(z)) <= SINSLACK)
        ra, dec = pt
        sd = np.sin(_d2r(dec))
        if role == "property":
            return bool(LD(a0) - SLACK <= LD(ra) <= LD(a1) + SLACK
                        and (LD(d0) - SLACK <= LD(dec) or np.sin(_d2r(d0)) - SINSLACK <= sd)
                        and (LD(dec) <= LD(d1) + SLACK or sd <= np.sin(_d2r(d1)) + SINSLACK)
                        and 0.0 <= ra <= 360.0 and -90.0 <= dec <= 90.0)
        return bool(abs(mra - LD(ra)) <= SLACK and abs(sd + v) <= SINSLACK)
    except Exception:  # noqa
        return True                                 # no prediction: compile it


def _nontrivial_geo(c, i):
    if c["kind"] == "cap":
        return c["rad"] > 0 and c["dev"][0][i] > 0
    a0, a1, d0, d1 = _box(c)
    return a1 > a0 or d1 > d0


def geometry_cases(ctx):
    return [c for c in corpus_cases(ctx.pid, "geometry")] + cap_cases(ctx) + box_cases(ctx)


def geometry(ctx, replay_case=None):
    geometry_certify(ctx, geometry_prepare(ctx, [replay_case] if replay_case is not None else geometry_cases(ctx)), replay_case)


def geometry_prepare(ctx, cases):
    """run the REAL code on every case (main thread, in case order: the history sequences depend on it) and print the
    certificates to be compiled"""
    items = []      # [case, point index, point, role, (statement, proof), negation, impl output]
    for c in cases:
        out = run_geo(c)
        fam = c.get("family", c["kind"])
        nontriv = any(_nontrivial_geo(c, i) for i in range(c["nrand"]))
        ctx.case(["geometry", c], nontriv, fam, sample={"entry": "geometry", "input": c, "impl_output": out})
        ctx.count("generator:" + c["gen"])
        if c["kind"] == "cap":
            ctx.count("branch:" + ("rotated" if _is_polar(c) else "direct"))
        want_cols = 3 if c["kind"] == "cap" or c["system"] == "xyz" else 2
        rep = {"kind": "geometry-case", "case": c, "impl_output": out}
        if not out["ok"]:
            ctx.violation("%s raised %s on a valid request" % (c["kind"], out["msg"]), rep)
            continue
        if out["ncols"] != want_cols or any(n != c["nrand"] for n in out["lens"]):
            ctx.violation("%s did not return the requested number of points (%s instead of %d x %d)"
                          % (c["kind"], out["lens"], want_cols, c["nrand"]), rep)
            continue
        if not out.get("inputs_unchanged", True) or not out.get("repeat_identical", True):
            ctx.violation("%s is not reproducible for equal generators: %s" % (c["kind"], "it modified the array it was given"
                          if not out.get("inputs_unchanged", True) else "a second call with equal arguments returned other values"), rep)
            continue
        if c["gen"] in STUBS and not out.get("stub_exhausted", True):
            ctx.violation("%s did not draw the deviates the model assumes (calls: %s)" % (c["kind"], out["stub_calls"]),
                          dict(rep, no_longer_checks="correspondence C19 deviate protocol"), found_input=False)
            continue
        for i, pt in enumerate(out["points"]):
            if not _fin(pt):
                ctx.violation("%s returned a non-finite value %s" % (c["kind"], pt), dict(rep, point=i))
                continue
            prop, model, neg = (cap_lemmas if c["kind"] == "cap" else box_lemmas)(c, i, pt)
            if prop is not None:
                items.append([c, i, pt, "property", prop, neg, out])
            if model is not None:
                items.append([c, i, pt, "model", model, None, out])
            else:
                ctx.count("borderline-skipped: xyz model certificate within 3.6 deg of a pole")
    return items


def geometry_certify(ctx, items, replay_case=None):
    # routing by the pre-screen
    good, suspect, skipped, nsus = [], [], [], {}
    for it in items:
        if predict(it[0], it[1], it[2], it[3]):
            good.append(it)
            continue
        fam = it[0].get("family", "")
        key = (it[0]["kind"], it[3], fam if fam.startswith("corpus:") else "*")     # every corpus witness family gets its own
        nsus[key] = nsus.get(key, 0) + 1
        (suspect if nsus[key] <= (2 if key[2] != "*" else SUSPECT_MAX) or replay_case is not None else skipped).append(it)
    ctx.count("prescreen:predicted-to-hold", len(good))
    ctx.count("prescreen:predicted-to-fail", len(suspect) + len(skipped))
    # at most GEO_PAR coqc processes at a time (each holds ~0.6 GB with Interval loaded; core.coq_lemmas would start 16)
    res, sh = [], (max(16, min(40, -(-len(good) // GEO_PAR))) if ctx.quick() else 30)
    for b0 in range(0, len(good), sh * GEO_PAR):
        res += core.coq_lemmas(ctx.work + "/geo%d" % (b0 // (sh * GEO_PAR)), PRE_R,
                               [it[4] for it in good[b0:b0 + sh * GEO_PAR]], shard=sh, tag="geo")
    # a coqc that died without a Coq error message (killed by the OOM killer / timeout on an overloaded machine)
    # is not a verdict: compile those lemmas once more, four at a time
    dead = [k for k, (ok, msg) in enumerate(res) if not ok and "Error" not in msg]
    ctx.count("certificates recompiled after a coqc crash", len(dead))
    for b0 in range(0, len(dead), 4):
        ks = dead[b0:b0 + 4]
        for k, r in zip(ks, core.coq_lemmas(ctx.work + "/again%d" % b0, PRE_R, [good[k][4] for k in ks], shard=1, tag="again")):
            res[k] = r
    res += core.coq_lemmas(ctx.work + "/sus", PRE_R, [it[4] for it in suspect], shard=1, tag="sus") if suspect else []
    ctx.checker_cmds.append("coqc <generated per-case lemmas: ProofsGeo introduction rules + interval>")
    failed_prop, failed_model = [], []
    for it, (ok, msg) in zip(good + suspect, res):
        c, i, pt, role = it[0], it[1], it[2], it[3]
        ctx.obligation("cert:%s:%s:%s[%d]" % (c["kind"], role, c.get("family", ""), i), ok, msg)
        ctx.count("certificates:%s:%s" % (c["kind"], role))
        if not ok:
            (failed_prop if role == "property" else failed_model).append((it, msg))
    for it in skipped:
        c, i, role = it[0], it[1], it[3]
        ctx.obligation("cert:%s:%s:%s[%d]" % (c["kind"], role, c.get("family", ""), i), False,
                       "pre-screen predicts failure; not compiled (reported through the compiled cases of the same kind)")
        ctx.count("certificates-not-compiled:%s:%s" % (c["kind"], role))
    # a failed property certificate: is the negation provable?
    refuted = {}
    if failed_prop:
        negs = core.coq_lemmas(ctx.work + "/neg", PRE_R, [it[5] for it, _ in failed_prop], shard=1, tag="neg")
        for k, (ok, _m) in enumerate(negs):
            refuted[k] = ok
    seen = set()
    for k, (it, msg) in enumerate(failed_prop):
        c, i, pt, out = it[0], it[1], it[2], it[6]
        what = ("randcap: returned point is not within the radius of the centre, or outside [0,360]x[-90,90], or the "
                "returned radius is not its separation (1e-9 deg)" if c["kind"] == "cap"
                else "randsphere: returned point is outside the requested box")
        key = (what, refuted.get(k, False), c.get("family"))
        if key in seen or len(seen) >= 10:
            continue
        seen.add(key)
        nmore = sum(1 for s_ in skipped if s_[0]["kind"] == c["kind"] and s_[3] == "property")
        ctx.violation(what + (" [negation proved in Coq]" if refuted.get(k) else " [certificate could not be established]"),
                      {"kind": "geometry-case", "case": c, "impl_output": out, "point": i, "output_point": pt,
                       "statement": it[4][0], "negation_proved": bool(refuted.get(k)), "coq": msg[-800:],
                       "further_cases_predicted_to_fail": nmore},
                      found_input=bool(refuted.get(k)))
    if failed_model and not any(refuted.values()):
        it, msg = failed_model[0]
        ctx.violation("%s: correspondence model<->implementation broken on %d point(s) (certificate %s failed)"
                      % (it[0]["kind"], len(failed_model) + sum(1 for s_ in skipped if s_[3] == "model"),
                         it[4][0].split(" ")[0]),
                      {"kind": "geometry-case", "case": it[0], "impl_output": it[6], "point": it[1], "statement": it[4][0],
                       "no_longer_checks": "correspondence C19.%s (R model within 1e-9 deg of the implementation)" % it[0]["kind"],
                       "coq": msg[-800:]}, found_input=False)


# ======================================================================================
# discrete requirements on sky outputs (count, exact ranges, reproducibility)
# ======================================================================================

class ParEntry(Entry):
    """An Entry whose verdict terms are evaluated by coqc in PARALLEL shards at the moment the cases are
    generated (runner.run_entry puts all terms of an entry into one file = one process).  The runner then
    receives, for exactly those case objects, the value coqc printed; corpus and replay cases (other
    objects) go through impl_real/term_real inside the runner as usual."""
    shard = 16

    def __init__(self):
        self._cache = {}
        self._prep = {}

    def prepare(self, ctx, round=0):
        """main thread: draw the cases and run the REAL code on them, in order"""
        cs = self.make_cases(ctx, round)
        outs = [self.impl_real(c) for c in cs]
        terms = [self.term_real(c, o) for c, o in zip(cs, outs)]
        self._prep[round] = [cs, outs, terms, False]

    def evaluate(self, ctx, round=0):
        """any thread: let coqc evaluate the verdict terms"""
        cs, outs, terms, _done = self._prep[round]
        self._prep[round][3] = True
        try:
            vals = core.coq_eval(os.path.join(ctx.work, "par_%s_%d" % (self.name, round)), PRE_Q, terms,
                                 shard=self.shard, tag="p")
        except core.CoqEvalError:
            return                         # the runner evaluates (and reports) it itself
        for c, o, v in zip(cs, outs, vals):
            self._cache[id(c)] = (c, o, "(%s)%%Z" % v.replace("%Z", "").strip("() "))

    def cases(self, ctx, round=0):
        if round not in self._prep:
            self.prepare(ctx, round)
        if not self._prep[round][3]:
            self.evaluate(ctx, round)
        return self._prep.pop(round)[0]

    def impl(self, c):
        h = self._cache.get(id(c))
        return h[1] if h is not None and h[0] is c else self.impl_real(c)

    def term(self, c, out):
        h = self._cache.get(id(c))
        return h[2] if h is not None and h[0] is c else self.term_real(c, out)


class SkyDiscrete(ParEntry):
    """count, exact ranges, radii bound and bit-identical repetition on seeded REAL generators (RandomState and
    default_rng), with the generator omitted (rng=None: ranges and count only), every argument form of the centre /
    ranges, keywords omitted or given as their defaults, and long requests (2^k +- 1 up to 10^5: the Coq term then
    carries the extremes of every column plus sampled rows; the count and the bit-identity of the two runs are
    integer / byte comparisons made here)."""
    name = "sky_discrete"
    LONG = 256

    def make_cases(self, ctx, round=0):
        r = ctx.rng
        cs = []

        def cap(n, gen, form=None, **kw):
            ra, dec = _sphere_point(r)
            dec = r.choice([dec, dec, 90.0, -90.0, 89.95])
            ra, rad = r.choice([ra, ra, 0.0, 360.0]), _radius(r)
            form = form or r.choice(CAP_FORMS)
            if form in ("f32", "0d_f32"):
                ra, dec, rad = (float(np.float32(v)) for v in (ra, dec, rad))
            if form == "int":
                ra, dec, rad = float(np.rint(ra)), float(np.rint(dec)), float(max(1.0, min(180.0, np.rint(rad))))
            c = {"kind": "cap", "ra": ra, "dec": dec, "rad": rad, "dorot": r.random() < 0.4, "get_radius": r.random() < 0.6,
                 "nrand": n, "gen": gen, "seed": r.randrange(2 ** 31), "family": "cap", "form": form,
                 "kw": r.choice(["explicit", "omit"]), "nrand_np": r.random() < 0.3}
            c.update(kw)
            cs.append(c)

        def box(n, gen, **kw):
            a0, a1 = sorted((r.random() * 360, r.random() * 360))
            d0, d1 = sorted((r.uniform(-90, 90), r.uniform(-90, 90)))
            form = r.choice(BOX_FORMS)
            ra_range = r.choice([[a0, a1], None, [a0, a0]])
            dec_range = r.choice([[d0, d1], None, [d0, d0], [-90.0, 90.0]])
            if form == "nd_f4":
                form = "nd_f8"          # arbitrary doubles are not float32 values; float32 ranges: geometry family box/forms
            if form in ("nd_i8", "pyint"):
                ra_range = None if ra_range is None else [float(int(v)) for v in ra_range]
                dec_range = None if dec_range is None else [float(int(v)) for v in dec_range]
            c = {"kind": "box", "ra_range": ra_range, "dec_range": dec_range, "nrand": n, "gen": gen, "seed": r.randrange(2 ** 31),
                 "family": "box", "form": form, "kw": r.choice(["explicit", "omit"]), "nrand_np": r.random() < 0.3, "system": "eq"}
            c.update(kw)
            cs.append(c)
        for _ in range(ctx.n(28, 300)):
            n = r.choice([0, 1, 2, 7, 50])
            (cap if r.random() < 0.6 else box)(n, r.choice(REALS))
        if round == 0:
            for n in (0, 3):                                   # generator omitted
                cap(n, "none", family="cap/rng-omitted")
                box(n, "none", family="box/rng-omitted")
            for n in ((16385,) if ctx.quick() else (16385, 65537, 100003)):
                cap(n, r.choice(REALS), family="cap/long", get_radius=True)
                cap(n, r.choice(REALS), family="cap/long", get_radius=True, dorot=True)
                box(n, r.choice(REALS), family="box/long")
        return cs

    def impl_real(self, c):
        def once():
            rng = None if c["gen"] == "none" else c19_rng.make(c["gen"], c["seed"])
            if c["kind"] == "cap" and not c["get_radius"]:
                from esutil import coords
                a = [_wrap(c[k], c.get("form")) for k in ("ra", "dec", "rad")]
                n = np.int64(c["nrand"]) if c.get("nrand_np") else c["nrand"]
                kw = {} if (c.get("kw") == "omit" and not c["dorot"]) else {"dorot": c["dorot"]}
                if c.get("kw") != "omit":
                    kw["get_radius"] = False
                o = coords.randcap(n, a[0], a[1], a[2], rng=rng, **kw)
            else:
                o, _same = _call_geo(c, rng)
            cols = [np.asarray(a, dtype="f8").ravel() for a in o]
            if not all(np.all(np.isfinite(a)) for a in cols):
                raise FloatingPointError("non-finite output")
            return cols
        a = core.guarded(once)
        b = a if c["gen"] == "none" else core.guarded(once)      # nothing to repeat without a generator
        if a[0] != "ok" or b[0] != "ok":
            return {"run1": None, "run2": None, "err": a[2] if a[0] != "ok" else b[2]}
        ca, cb_ = a[1], b[1]
        lens = [int(x.size) for x in ca]
        res = {"err": None, "lens": lens, "lens2": [int(x.size) for x in cb_], "sub": None}
        if len(set(lens)) == 1 and lens and lens[0] > self.LONG and len(ca) == len(cb_) and lens == res["lens2"]:
            n = lens[0]
            idx = sorted(set([0, n - 1] + [int(f(col)) for col in ca for f in (np.argmin, np.argmax)]
                             + [int(i) for i in np.random.RandomState(c["seed"] % 2 ** 31).randint(0, n, 12)]))
            res["sub"] = len(idx)
            res["bytes_identical"] = all(x.tobytes() == y.tobytes() for x, y in zip(ca, cb_))
            ca, cb_ = [x[idx] for x in ca], [x[idx] for x in cb_]
        res["run1"] = {"ncols": len(ca), "cols": [[float(v) for v in x] for x in ca]}
        res["run2"] = {"ncols": len(cb_), "cols": [[float(v) for v in x] for x in cb_]}
        return res

    def term_real(self, c, out):
        if out["err"] is not None:
            return "2%Z"
        r1, r2 = out["run1"], out["run2"]
        want = 3 if (c["kind"] == "cap" and c["get_radius"]) else 2
        if r1["ncols"] != want or r2["ncols"] != want or len(set(len(x) for x in r1["cols"])) != 1:
            return "2%Z"
        n = c["nrand"]
        if out["sub"] is not None:
            if out["lens"] != [c["nrand"]] * want or not out["bytes_identical"]:
                return "2%Z"
            n = out["sub"]
        elif out["lens"] != out["lens2"]:
            return "2%Z"
        t = "v_sky %s %s %s" % (cz(n), cqpairs(zip(r1["cols"][0], r1["cols"][1])),
                                cqpairs(zip(r2["cols"][0], r2["cols"][1])))
        if want == 3:
            t = "Z.max (%s) (v_radii %s %s %s)" % (t, cQ(c["rad"]), cqlist(r1["cols"][2]), cqlist(r2["cols"][2]))
        return t

    def nontrivial(self, c, out):
        return c["nrand"] >= 2


# ======================================================================================
# cumulative-method sampler
# ======================================================================================

def _poly(a, b, c2=None, c3=None):
    if a == "gauss":                                     # floor + narrow Gaussian: flat cumulative stretches away from its centre
        return lambda t: b + np.exp(-0.5 * ((t - c2) / c3) ** 2)
    return lambda t: a + b * t + c2 * t * t


GEN_FORMS = ("list", "tuple", "int", "i4", "f4", "be", "strided", "reversed-view", "readonly")


def _arr(v, form):
    """the same numbers in another container / dtype / memory layout"""
    a = np.array(v, dtype="f8")
    if form == "list":
        return [float(t) for t in v]
    if form == "tuple":
        return tuple(float(t) for t in v)
    if form in ("int", "i4"):
        assert all(float(int(t)) == float(t) for t in v)
        return np.array([int(t) for t in v], dtype="i8" if form == "int" else "i4")
    if form == "f4":
        assert all(float(np.float32(t)) == float(t) for t in v)
        return a.astype("f4")
    if form == "be":
        return a.astype(">f8")
    if form == "strided":
        b = np.full(2 * len(a), -777.0)
        b[::2] = a
        return b[::2]
    if form == "reversed-view":
        return a[::-1].copy()[::-1]
    if form == "readonly":
        a.setflags(write=False)
        return a
    return a


class GeneratorEntry(ParEntry):
    name = "generator"

    def make_cases(self, ctx, round=0):
        r = ctx.rng
        cs = []

        def grid(n, kind):
            if kind == "uniform":
                x0, h = r.uniform(-5, 5), r.uniform(0.01, 2)
                return [x0 + h * i for i in range(n)]
            if kind == "integers":
                x0 = r.randrange(-5, 5)
                return [float(x0 + i) for i in range(n)]
            x, out = r.uniform(-100, 100), []
            for _ in range(n):
                out.append(x)
                x = x + 10.0 ** r.uniform(-3, 1)
            return out

        def dens(n, kind):
            if kind == "flat":
                return [1.0] * n
            if kind == "wide":
                return [10.0 ** r.uniform(-3, 3) for _ in range(n)]
            if kind == "small-integers":
                return [float(r.randrange(1, 9)) for _ in range(n)]
            return [r.uniform(0.05, 3.0) for _ in range(n)]

        def one(n, gk, dk, mode="table", nus=6, fam=None):
            x = grid(n, gk)
            c = {"mode": mode, "x": x, "gen": r.choice(STUBS), "scalar": False,
                 "family": fam or "%s-grid/%s-density/%s" % (gk, dk, mode)}
            if mode == "table":
                c["p"] = dens(n, dk)
            else:
                c["coef"] = [r.uniform(0.1, 2), 0.0, r.uniform(0, 1)]        # a + c t^2 > 0
                if mode == "func_range":
                    c["xrange"], c["nx"] = [x[0], x[-1]], n
            c["us"] = [r.random() for _ in range(nus)] + [r.choice([0.0, 1.0, 1.0 - 2.0 ** -53, 1e-300])]
            c["nodes"] = sorted(set([0, n // 2 - 1, n - 2] if n >= 3 else []) & set(range(max(n - 1, 0))))
            return c
        if round == 0:
            cs.append({"mode": "table", "x": [0.0, 1.0, 3.0], "p": [1.0, 2.0, 1.0], "us": [1 / 3, 2 / 3, 0.5, 1.0, 0.0],
                       "nodes": [0, 1], "gen": "stub_legacy", "scalar": False, "family": "hand"})
            for n in ((3, 5, 17) if ctx.quick() else (3, 4, 5, 17)):
                for gk in ("uniform", "integers", "irregular"):
                    for dk in (r.sample(["flat", "wide", "small-integers", "random"], 2) if ctx.quick()
                               else ("flat", "wide", "small-integers", "random")):
                        cs.append(one(n, gk, dk))
            for n in (0, 1, 2):                     # not enough grid points: rejected, not required
                c = one(max(n, 0), "integers", "flat", fam="rejected/grid-of-%d" % n)
                c["nodes"] = []
                cs.append(c)
            c = one(5, "integers", "flat", fam="rejected/shape-mismatch")
            c["p"] = c["p"][:-1]
            c["nodes"] = []
            cs.append(c)
            c = one(6, "uniform", "random", fam="scalar-sample")
            c["scalar"], c["us"], c["nodes"] = True, [r.random()], []    # sample() draws exactly one deviate
            cs.append(c)
            c = one(6, "uniform", "random", fam="no-deviates")
            c["us"], c["nodes"] = [], []
            cs.append(c)
        if round == 0:
            # input forms of the table: containers, integer / float32 / big-endian dtypes, strided and negative-stride
            # views, read-only arrays (float32 tables are built by numpy in float32: tolerance x 2^29)
            for form in GEN_FORMS:
                integral = form in ("int", "i4")
                c = one(r.choice([5, 9]), "integers" if integral else "uniform", "small-integers" if integral else "random",
                        fam="forms/" + form)
                if form == "f4":
                    c["x"] = [float(np.float32(t)) for t in c["x"]]
                    c["p"] = [float(np.float32(t)) for t in c["p"]]
                c["form"] = form
                cs.append(c)
            for form in ("list", "tuple", "strided", "readonly", "be"):
                c = one(7, "irregular", "random", mode="func_x", fam="forms/func_x/" + form)
                c["form"] = form
                cs.append(c)
            # options: alias genrand, numpy integer count, defaults given explicitly, xrange as tuple, nx numpy integer
            for opt in ("alias", "n_np", "kwdef"):
                c = one(6, "uniform", "random", fam="options/" + opt)
                c["opt"] = opt
                cs.append(c)
            c = one(8, "uniform", "random", mode="func_range", fam="options/xrange-tuple-nx-np")
            c["opt"] = "range_np"
            cs.append(c)
            # Generator(seed=s): its own RandomState(seed); deviates known through a twin generator
            for _ in range(3):
                c = one(r.choice([4, 12]), "irregular", "wide", fam="seeded-own-generator")
                c["gen"], c["seed"], c["nodes"] = "seed", r.randrange(2 ** 31), []
                c["us"] = c19_rng.deviates_of("legacy", c["seed"], [len(c["us"])])[0]
                cs.append(c)
            # cumulative=True (the table IS the cumulative distribution): model comparison only
            for _ in range(3):
                c = one(r.choice([3, 6, 11]), "irregular", "random", fam="cumulative-table")
                acc, cum = 0.0, []
                for v in c["p"]:
                    acc += v
                    cum.append(acc)
                c["p"], c["mode"], c["nodes"] = cum, "cum", []
                cs.append(c)
            # long request (2^k + 1): pairwise monotonicity checker off, value-by-value agreement on
            # HISTORY: earlier Generators built in the same process from the SAME table ndarray objects (contents overwritten
            # in place before the judged construction), grids sharing length / first / last value with different interiors and
            # densities, a fresh object with equal contents; and ONE Generator object asked several times (split requests)
            for mode in ("refill", "same-ends", "fresh-equal-object"):
                for tmode in ("table", "func_x"):
                    n = r.choice([5, 9])
                    c = one(n, "irregular", "random", mode=tmode, fam="history/%s/%s" % (mode, tmode))
                    hist = []
                    for _k in range(r.choice([1, 2])):
                        h = one(n, "irregular", "wide", mode=tmode)
                        if mode == "same-ends":
                            hx = sorted([c["x"][0], c["x"][-1]] + [r.uniform(c["x"][0], c["x"][-1]) for _ in range(n - 2)])
                            if len(set(hx)) == n:
                                h["x"] = hx
                        hist.append({"x": h["x"], "p": h.get("p"), "coef": h.get("coef"), "us": h["us"][:3]})
                    c["history"], c["hist_mode"] = hist, mode
                    cs.append(c)
            for _k in range(3):
                c = one(r.choice([4, 8]), "uniform", "random", fam="one-generator-several-requests")
                c["nodes"] = []
                k1 = r.randrange(1, len(c["us"]) - 1)
                c["split"] = [k1, None, len(c["us"]) - k1 - 1]        # sample(k1), sample() scalar, sample(rest)
                cs.append(c)
            # FLAT STRETCHES of the cumulative table (repeated float values: at the start as far as positive densities allow,
            # in the middle, saturated 1.0 at the end), tabulated and functional, with EXACT deviates: 0.0, 1.0, every distinct
            # cumulative value of the implementation's table and its two floating-point neighbours.  Non-finite output = failing.
            for where in ("start", "middle", "end"):
                n = r.choice([7, 9])
                x = grid(n, r.choice(["uniform", "integers", "irregular"]))
                pvals = [r.uniform(0.5, 2.0) for _ in range(n)]
                lo = {"start": 0, "middle": (n - 3) // 2, "end": n - 3}[where]
                for k in range(lo, lo + 3):
                    pvals[k] = 10.0 ** r.uniform(-30, -20)
                cs.append({"mode": "table", "x": x, "p": pvals, "gen": r.choice(STUBS), "scalar": False, "us": [], "nodes": "exact",
                           "family": "flat-stretch/%s/table" % where})
                xs = [float(t) for t in np.linspace(-12.0, 12.0, r.choice([13, 25]))]
                centre = {"start": 12.0, "middle": r.choice([-12.0, 12.0]) if False else 0.0, "end": -12.0}[where]
                if where == "middle":                          # two bumps at the ends = flat middle: use a wide grid and centre 0 inverted
                    centre = 0.0
                cs.append({"mode": "func_x", "x": xs, "coef": ["gauss", 10.0 ** r.uniform(-24, -20), centre, r.choice([0.7, 1.0])],
                           "gen": r.choice(STUBS), "scalar": False, "us": [], "nodes": "exact",
                           "family": "flat-stretch/%s/func_x" % ("both-ends" if where == "middle" else where)})
            # long requests (beyond any plausible internal block size): the count is compared here, the Coq term carries the
            # pairs at both ends, around every power of two, at the extremes of the output and at sampled positions
            for nlong in ((16385,) if ctx.quick() else (16385, 65537, 100003)):      # 2^k + 1: one element beyond every block size 2^j <= 2^k
                c = one(9, "irregular", "random", fam="long-request")
                c["long"], c["nodes"], c["long_seed"] = nlong, [], r.randrange(2 ** 31)
                cs.append(c)
        for _ in range(ctx.n(10, 480)):
            n = r.choice([3, 4, 6, 10, 25, r.randrange(3, ctx.n(25, 120))])
            cs.append(one(n, r.choice(["uniform", "integers", "irregular"]), r.choice(["flat", "wide", "small-integers", "random"]),
                          mode=r.choice(["table", "table", "func_x", "func_range"]), nus=r.choice([2, 6, 12])))
        return cs

    @staticmethod
    def _table(c):
        """the grid and tabulated density the implementation works from (for the functional modes the
        harness evaluates the same python function on the same grid)"""
        if c["mode"] in ("table", "cum"):
            return list(c["x"]), list(c["p"])
        f = _poly(*c["coef"])
        x = np.linspace(c["xrange"][0], c["xrange"][1], c["nx"]) if c["mode"] == "func_range" else np.array(c["x"], dtype="f8")
        return [float(t) for t in x], [float(t) for t in f(x)]

    def impl_real(self, c):
        from esutil import random as er

        form, opt = c.get("form"), c.get("opt")

        shared = {}

        def tables():
            """the table arguments; in a sequence the same ndarray objects, refilled in place"""
            if not c.get("history"):
                return (None if c["mode"] not in ("table", "cum") else _arr(c["p"], form)), _arr(c["x"], form)
            if not shared:
                h0 = c["history"][0]
                shared["x"] = np.array(h0["x"], dtype="f8")
                shared["p"] = None if h0["p"] is None else np.array(h0["p"], dtype="f8")
                for k, h in enumerate(c["history"]):
                    if k > 0:
                        shared["x"][:] = h["x"]
                        if shared["p"] is not None:
                            shared["p"][:] = h["p"]
                    hr = c19_rng.make(c["gen"], None, h["us"])
                    hp = _poly(*h["coef"]) if shared["p"] is None else shared["p"]
                    er.Generator(hp, x=shared["x"], rng=hr).sample(len(h["us"]))
                if c.get("hist_mode") == "fresh-equal-object":
                    shared["x"] = np.array(c["x"], dtype="f8")
                    shared["p"] = None if shared["p"] is None else np.array(c["p"], dtype="f8")
                else:
                    shared["x"][:] = c["x"]
                    if shared["p"] is not None:
                        shared["p"][:] = c["p"]
            return shared["p"], shared["x"]

        def build(us):
            if c.get("history"):
                pt, xt = tables()
                rng = c19_rng.make(c["gen"], None, us)
                return er.Generator(_poly(*c["coef"]) if pt is None else pt, x=xt, rng=rng), rng
            if c["gen"] == "seed":
                return er.Generator(_arr(c["p"], form), x=_arr(c["x"], form), seed=c["seed"]), None
            rng = c19_rng.make(c["gen"], None, us)
            kw = {"method": "accum", "cumulative": False} if opt == "kwdef" else {}
            if c["mode"] == "table":
                g = er.Generator(_arr(c["p"], form), x=_arr(c["x"], form), rng=rng, **kw)
            elif c["mode"] == "cum":
                g = er.Generator(_arr(c["p"], form), x=_arr(c["x"], form), rng=rng, cumulative=True)
            elif c["mode"] == "func_x":
                g = er.Generator(_poly(*c["coef"]), x=_arr(c["x"], form), rng=rng)
            elif opt == "range_np":
                g = er.Generator(_poly(*c["coef"]), xrange=tuple(c["xrange"]), nx=np.int64(c["nx"]), rng=rng)
            else:
                g = er.Generator(_poly(*c["coef"]), xrange=c["xrange"], nx=c["nx"], rng=rng)
            return g, rng

        def f():
            g, _ = build([])
            # deviates exactly equal to tabulated cumulative values (as the implementation holds them)
            if c["nodes"] == "exact":
                qs = sorted(set(float(q) for q in g.pcum))
                nodes = [0.0, 1.0]
                for q in qs:
                    nodes += [q, float(np.nextafter(q, -np.inf)), float(np.nextafter(q, np.inf))]
                nodes = [q for q in nodes if 0.0 <= q <= 1.0]
            else:
                nodes = [float(g.pcum[k]) for k in c["nodes"]]
            us = list(c["us"]) + nodes
            if c.get("long"):
                us = [float(v) for v in np.random.RandomState(c["long_seed"]).random_sample(c["long"])]
            g, rng = build(us)
            if c["scalar"]:
                vals = [float(g.sample())]
            elif c.get("split"):
                vals = []
                for k in c["split"]:
                    if k is None:
                        vals.append(float(g.sample()))
                    else:
                        got = g.sample(k)
                        vals += [float(v) for v in got]
                        got[...] = np.nan                   # the caller overwrites the array it was handed back
            elif opt == "alias":
                vals = [float(v) for v in g.genrand(len(us))]
            elif opt == "n_np":
                vals = [float(v) for v in g.sample(np.int64(len(us)))]
            else:
                vals = [float(v) for v in g.sample(len(us))]
            if len(vals) != len(us):
                raise AssertionError("%d values returned for %d requested" % (len(vals), len(us)))
            if rng is not None and not rng.exhausted():
                raise AssertionError("deviates not consumed")
            if not _fin(vals):
                raise FloatingPointError("non-finite sample for deviates %r" % [u for u, v in zip(us, vals) if not math.isfinite(v)][:4])
            if c.get("long"):
                n = len(us)
                idx = {0, n - 1, int(np.argmin(vals)), int(np.argmax(vals))}
                for k in range(8, 17):
                    idx.update(i for i in (2 ** k - 1, 2 ** k, 2 ** k + 1) if i < n)
                idx.update(int(i) for i in np.random.RandomState(c["long_seed"] + 1).randint(0, n, 10))
                idx = sorted(idx)
                us, vals = [us[i] for i in idx], [vals[i] for i in idx]
            return {"us": us, "vals": vals,
                    "node_targets": [] if c["nodes"] == "exact" else [float(g.xvals[k]) for k in c["nodes"]]}
        return core.guarded(f)

    def term_real(self, c, out):
        x, p = self._table(c)
        fn = "v_gen_x %s" % ("(536870912 # 1)%Q" if c.get("form") == "f4" else "(1 # 1)%Q")
        if c["mode"] == "cum":
            fn = "v_gen_cum"
        if out[0] == "ok":
            return "%s %s %s %s (Ok %s)" % (fn, cqlist(p), cqlist(x), cqlist(out[1]["us"]), cqlist(out[1]["vals"]))
        return "%s %s %s %s (Err %s)" % (fn, cqlist(p), cqlist(x), cqlist(c["us"] or [0.5]), out[1])

    def nontrivial(self, c, out):
        return out[0] == "ok" and len(c["x"]) >= 3 and (len(c["us"]) >= 2 or c["nodes"] == "exact")

    def show(self, c):
        x, p = self._table(c)
        return "gen_sample false %s %s %s" % (cqlist(p), cqlist(x), cqlist(c["us"]))


# ======================================================================================
# Cholesky sampler
# ======================================================================================

CHOL_COV_FORMS = ("f8", "int", "i4", "be", "fortran", "strided", "readonly", "list")
CHOL_MEAN_FORMS = ("array", "list", "tuple", "int")
CHOL_DIST_DTYPES = ("f8", "f4", "int")


def _cov_arr(cov, form):
    a = np.array(cov, dtype="f8")
    if form in ("int", "i4"):
        assert np.all(a == np.rint(a))
        return a.astype("i8" if form == "int" else "i4")
    if form == "be":
        return a.astype(">f8")
    if form == "fortran":
        return np.asfortranarray(a)
    if form == "strided":
        b = np.full((2 * a.shape[0], 2 * a.shape[1]), -777.0)
        b[::2, ::2] = a
        return b[::2, ::2]
    if form == "readonly":
        a.setflags(write=False)
        return a
    if form == "list":
        return [[float(v) for v in row] for row in cov]
    return a


def _mean_arr(m, form):
    if form == "list":
        return [float(v) for v in m]
    if form == "tuple":
        return tuple(float(v) for v in m)
    if form == "int":
        assert all(float(int(v)) == float(v) for v in m)
        return np.array([int(v) for v in m], dtype="i8")
    return np.array(m, dtype="f8")


class CholeskyEntry(ParEntry):
    """CholeskySampler / cholesky_sample with a recording deviate source, over covariance forms (float64, integer dtypes,
    big-endian, Fortran order, strided view, read-only), mean forms (array, list, tuple, integer), deviate dtypes
    (float64, float32, integer), numpy integer counts, two consecutive sample() calls on one sampler, and the default
    deviate source numpy.random.randn (global state seeded, deviates known through a twin RandomState)."""
    name = "cholesky"

    def make_cases(self, ctx, round=0):
        r = ctx.rng
        cs = []

        def one(npar, api, cov_form="f8", mean_form="array", dist_dtype="f8", fam=None, n=None):
            integral = cov_form in ("int", "i4")
            if integral:
                a = [[float(r.randrange(-3, 4)) for _ in range(npar)] for _ in range(npar)]
                scale = 1.0
            else:
                scale = 10.0 ** r.uniform(-2, 2)
                a = [[r.uniform(-1, 1) * scale for _ in range(npar)] for _ in range(npar)]
            cov = [[sum(a[i][k] * a[j][k] for k in range(npar)) for j in range(npar)] for i in range(npar)]
            for i in range(npar):
                cov[i][i] += 1.0 if integral else 0.05 * scale * scale
                for j in range(i):
                    cov[i][j] = cov[j][i]
            n = n if n is not None else (1 if api == "class_scalar" else r.choice([1, 2, 3, 4]))
            tot = npar * n * (2 if api == "class_twice" else 1)
            if dist_dtype == "int":
                flat = [float(r.randrange(-4, 5)) for _ in range(tot)]
            elif dist_dtype == "f4":
                flat = [float(np.float32(r.gauss(0, 1))) for _ in range(tot)]
            else:
                flat = [r.gauss(0, 1) for _ in range(tot)]
            if api in ("func_nomean",):
                mean = None
            elif mean_form == "int":
                mean = [float(r.randrange(-50, 50)) for _ in range(npar)]
            else:
                mean = [r.uniform(-50, 50) for _ in range(npar)]
            c = {"cov": cov, "mean": mean, "n": n, "api": api, "flat": flat, "cov_form": cov_form, "mean_form": mean_form,
                 "dist_dtype": dist_dtype, "n_np": r.random() < 0.25,
                 "family": fam or "%dx%d/%s" % (npar, npar, api)}
            if api.endswith("_nodist"):
                c["seed"] = r.randrange(2 ** 31)
                c["flat"] = [float(v) for v in np.random.RandomState(c["seed"]).randn(npar * n)]
            cs.append(c)
        apis = ["class", "class_scalar", "func", "func_nomean"]
        for _ in range(ctx.n(16, 400)):
            one(r.choice([1, 2, 3, 4, 5]), r.choice(apis))
        if round == 0:
            for form in CHOL_COV_FORMS:
                if form == "list":
                    continue            # CholeskySampler(list, list): corpus witness (fixes/C19/0003); cholesky_sample documents `array`
                for api in ("class", "func"):
                    one(r.choice([2, 3, 5]), api, cov_form=form, fam="forms/cov-%s/%s" % (form, api))
            for form in CHOL_MEAN_FORMS:
                for api in ("class", "func"):
                    if form in ("list", "tuple") and api == "class":
                        continue        # same corpus witness
                    one(r.choice([2, 4]), api, mean_form=form, fam="forms/mean-%s/%s" % (form, api))
            for dt in CHOL_DIST_DTYPES:
                for api in ("class", "func"):
                    one(r.choice([2, 3]), api, dist_dtype=dt, fam="forms/dist-%s/%s" % (dt, api))
            one(3, "class", cov_form="int", mean_form="int", dist_dtype="int", fam="forms/all-integer/class")
            one(3, "func", cov_form="int", mean_form="int", dist_dtype="int", fam="forms/all-integer/func")
            # HISTORY: earlier calls in the same process made with the SAME covariance / mean ndarray objects, whose contents
            # are overwritten in place before the judged call (a cache keyed by object identity, shape or first/last
            # element would answer with the factor of an earlier call); variants: refill `cov[:, :] = ...`, `cov *= 4`,
            # and a fresh object with equal contents after the buffer
            for api in ("func", "class", "func_nomean"):
                for mode in ("refill", "scale", "fresh-equal-object"):
                    npar = r.choice([2, 3, 5])
                    one(npar, api, fam="history/%s/%s" % (mode, api))
                    final = cs[-1]
                    hist = []
                    for _k in range(r.choice([1, 2])):
                        one(npar, api, n=final["n"])
                        h = cs.pop()
                        hist.append({"cov": h["cov"], "mean": h["mean"], "flat": h["flat"]})
                    if mode == "scale":
                        final["cov"] = [[4.0 * v for v in row] for row in hist[-1]["cov"]]
                    final["history"], final["hist_mode"], final["n_np"] = hist, mode, False
            # exact special values: diagonal covariance (zero off-diagonals), zero mean, all deviates zero
            for api in ("class", "func"):
                one(3, api, fam="special-values/diagonal-cov/" + api)
                cs[-1]["cov"] = [[cs[-1]["cov"][i][j] if i == j else 0.0 for j in range(3)] for i in range(3)]
                one(2, api, fam="special-values/zero-mean-zero-deviates/" + api)
                cs[-1]["mean"] = [0.0, -0.0]
                cs[-1]["flat"] = [0.0] * len(cs[-1]["flat"])
            for npar in (2, 5):
                one(npar, "class_twice", fam="two-calls-one-sampler")
                one(npar, "class_nodist", fam="default-deviate-source/class")
                one(npar, "func_nodist", fam="default-deviate-source/func")
        return cs

    def impl_real(self, c):
        from esutil import random as er
        drew = []
        npar = len(c["cov"])
        dt = {"f8": "f8", "f4": "f4", "int": "i8"}[c.get("dist_dtype", "f8")]
        pos = [0]

        def dist(k):                       # recording deviate source
            drew.append(int(k))
            blk = c["flat"][pos[0]:pos[0] + int(k)]
            pos[0] += int(k)
            return np.array(blk, dtype="f8").astype(dt)

        def f():
            cov = _cov_arr(c["cov"], c.get("cov_form", "f8"))
            keep = np.array(c["cov"], dtype="f8")
            mean = None if c["mean"] is None else _mean_arr(c["mean"], c.get("mean_form", "array"))
            n = np.int64(c["n"]) if c.get("n_np") else c["n"]
            api = c["api"]
            s2 = None
            if c.get("history"):
                # the same two ndarray objects serve every call of the sequence
                cov = np.array(c["history"][0]["cov"], dtype="f8")
                mean = None if c["mean"] is None else np.array(c["history"][0]["mean"], dtype="f8")
                for k, h in enumerate(c["history"]):
                    if k > 0:
                        cov[:, :] = np.array(h["cov"], dtype="f8")
                        if mean is not None:
                            mean[:] = h["mean"]
                    hd = lambda m, h=h: np.array(h["flat"][:int(m)], dtype="f8")    # noqa
                    if api.startswith("class"):
                        er.CholeskySampler(mean, cov, dist=hd).sample(n)
                    else:
                        er.cholesky_sample(cov, n, means=mean, dist=hd)
                if c.get("hist_mode") == "scale":
                    cov *= 4.0
                elif c.get("hist_mode") == "fresh-equal-object":
                    cov = np.array(c["cov"], dtype="f8")
                else:
                    cov[:, :] = np.array(c["cov"], dtype="f8")
                if mean is not None:
                    mean[:] = c["mean"]
                if not np.array_equal(cov, keep):
                    raise AssertionError("harness: sequence did not arrive at the judged covariance")
            if api.endswith("_nodist"):
                np.random.seed(c["seed"])
            if api.startswith("class"):
                cs = er.CholeskySampler(mean, cov) if api == "class_nodist" else er.CholeskySampler(mean, cov, dist=dist)
                M = cs.M
                s = cs.sample() if api == "class_scalar" else cs.sample(n)
                s = np.atleast_2d(s)
                if api == "class_twice":
                    s_first = np.array(s, dtype="f8", copy=True)
                    if isinstance(s, np.ndarray) and s.flags.writeable:
                        s[...] = np.nan                     # the caller overwrites the sample it was handed back
                    s = s_first
                    s2 = np.atleast_2d(cs.sample(n))
                    M2 = cs.M
                    if M2 is not M or not np.array_equal(np.asarray(M2), np.asarray(M)):
                        raise AssertionError("factor changed between two sample() calls")
            else:
                M = np.linalg.cholesky(np.array(cov, dtype=np.asarray(cov).dtype, copy=True))   # the oracle, on a private copy
                if api == "func_nodist":
                    s = er.cholesky_sample(cov, n, means=mean)
                else:
                    s = er.cholesky_sample(cov, n, means=mean, dist=dist)
            if not np.array_equal(np.asarray(cov, dtype="f8"), keep):
                raise AssertionError("the covariance argument was modified")
            if not np.all(np.isfinite(s)):
                raise FloatingPointError("non-finite sample")
            if api.endswith("_nodist"):
                drew.append(npar * c["n"])
            mat = lambda m: [[float(v) for v in row] for row in np.asarray(m, dtype="f8")]   # noqa
            return {"M": mat(M), "samples": mat(s), "samples2": None if s2 is None else mat(s2), "drew": drew}
        return core.guarded(f)

    def term_real(self, c, out):
        k = len(c["cov"]) * c["n"]
        want = [k, k] if c["api"] == "class_twice" else [k]
        if out[0] != "ok" or out[1]["drew"] != want:
            return "2%Z"                    # raised on an SPD covariance, or did not draw npar*n deviates in one call
        o = out[1]
        mat = lambda m: "[" + "; ".join(cqlist(row) for row in m) + "]"   # noqa
        mean = "None" if c["mean"] is None else "(Some %s)" % cqlist(c["mean"])
        t = "v_chol %s %s %s %d%%nat %s %s" % (mean, mat(c["cov"]), mat(o["M"]), c["n"], cqlist(c["flat"][:k]), mat(o["samples"]))
        if c["api"] == "class_twice":
            t = "Z.max (%s) (v_chol %s %s %s %d%%nat %s %s)" % (t, mean, mat(c["cov"]), mat(o["M"]), c["n"],
                                                               cqlist(c["flat"][k:2 * k]), mat(o["samples2"]))
        return t

    def nontrivial(self, c, out):
        return len(c["cov"]) >= 2

    def show(self, c):
        return None


# ======================================================================================
# random_indices
# ======================================================================================

class RandomIndices(ParEntry):
    name = "random_indices"

    def make_cases(self, ctx, round=0):
        r = ctx.rng
        cs = []
        if round == 0:
            rng_i, rng_n = (range(0, 4), range(-1, 5)) if ctx.quick() else (range(-1, 8), range(-1, 10))
            for imax in rng_i:
                for nrand in rng_n:
                    for unique in (True, False):
                        cs.append({"imax": imax, "nrand": nrand, "unique": unique, "gen": r.choice(["legacy", "new", "seed"]),
                                   "seed": r.randrange(2 ** 31), "family": "small-scope"})
        for _ in range(ctx.n(36, 400)):
            imax = r.choice([r.randrange(1, 20), r.randrange(1, 1000), r.randrange(1, 10 ** 6)])
            unique = r.random() < 0.6
            nrand = r.choice([0, 1, imax, imax + 1, r.randrange(0, min(imax, 200) + 1), r.randrange(0, 300)])
            if nrand > 2000:
                nrand = 2000 + (0 if not unique else 0)
            cs.append({"imax": imax, "nrand": nrand, "unique": unique, "gen": r.choice(["legacy", "new", "seed"]),
                       "seed": r.randrange(2 ** 31), "family": "random",
                       "form": r.choice(["py", "py", "np", "positional"]), "unique_kw": r.choice(["given", "omit"])})
        if round == 0:
            for k in range(4):                                 # neither rng nor seed: a fresh default_rng()
                cs.append({"imax": r.randrange(2, 50), "nrand": r.randrange(0, 12), "unique": k % 2 == 0, "gen": "none", "seed": 0,
                           "family": "rng-and-seed-omitted", "form": "py", "unique_kw": "omit" if k % 2 == 0 else "given"})
            # HISTORY: ONE generator object serves a sequence of calls with other (imax, nrand, unique); the judged call is the
            # last one, the repetition replays the whole sequence on an equal generator
            for _k in range(ctx.n(8, 40)):
                imax = r.randrange(2, 40)
                hist = [{"imax": r.choice([imax, r.randrange(1, 60)]), "nrand": r.randrange(0, 8), "unique": r.random() < 0.5}
                        for _j in range(r.choice([1, 2, 3]))]
                for h in hist:
                    if h["unique"]:
                        h["nrand"] = min(h["nrand"], h["imax"])
                unique = r.random() < 0.6
                cs.append({"imax": imax, "nrand": r.randrange(0, imax + 1) if unique else r.randrange(0, 2 * imax), "unique": unique,
                           "gen": r.choice(["legacy", "new"]), "seed": r.randrange(2 ** 31), "family": "history/one-generator",
                           "form": "py", "unique_kw": r.choice(["given", "omit"]), "history": hist})
            # large populations / long selections (numpy switches algorithm with the population size)
            for imax, nrand in (((100003, 1025), (65537, 1023)) if ctx.quick() else ((100003, 4097), (65537, 4095), (2 ** 31 + 11, 1025))):
                for unique in (True, False):
                    cs.append({"imax": imax, "nrand": nrand, "unique": unique, "gen": r.choice(["legacy", "new", "seed"]),
                               "seed": r.randrange(2 ** 31), "family": "large", "form": r.choice(["py", "np"]), "unique_kw": "given"})
        return cs

    def impl_real(self, c):
        from esutil import random as er

        form = c.get("form", "py")
        imax, nrand = (np.int64(c["imax"]), np.int64(c["nrand"])) if form == "np" else (c["imax"], c["nrand"])

        def once():
            kw = {} if (c.get("unique_kw") == "omit" and c["unique"]) else {"unique": c["unique"]}
            if c["gen"] == "seed":
                o = er.random_indices(imax, nrand, seed=c["seed"], **kw)
            elif c["gen"] == "none":
                o = er.random_indices(imax, nrand, **kw)
            elif form == "positional":
                o = er.random_indices(imax, nrand, c["unique"], c19_rng.make(c["gen"], c["seed"]))
            elif c.get("history"):
                g = c19_rng.make(c["gen"], c["seed"])
                for h in c["history"]:
                    er.random_indices(h["imax"], h["nrand"], unique=h["unique"], rng=g)
                o = er.random_indices(imax, nrand, rng=g, **kw)
            else:
                o = er.random_indices(imax, nrand, rng=c19_rng.make(c["gen"], c["seed"]), **kw)
            o = np.asarray(o)
            if o.dtype.kind not in "iu":
                raise TypeError("indices of dtype %s" % o.dtype)
            return [int(v) for v in o.ravel()]
        a = core.guarded(once)
        return [a, a if c["gen"] == "none" else core.guarded(once)]        # nothing to repeat without rng / seed

    def term_real(self, c, out):
        f = lambda o: "(Ok %s)" % clist(o[1]) if o[0] == "ok" else "(Err %s)" % o[1]   # noqa
        return "v_ri %s %s %s %s %s" % (cz(c["imax"]), cz(c["nrand"]), cbool(c["unique"]), f(out[0]), f(out[1]))

    def nontrivial(self, c, out):
        return c["nrand"] >= 2 and c["imax"] >= 2


# ======================================================================================
# source tie: formula chains regenerated from the source, proved equal to the hand model
# ======================================================================================

def source_tie(ctx):
    import esutil
    root = os.path.dirname(os.path.dirname(os.path.abspath(esutil.__file__)))
    ctx.checker_cmds.append("coqc <gen_* definitions translated from esutil/coords.py; forall args, gen_f args = Model.f args by reflexivity>")
    try:
        defs, lemmas, facts = c19_translate.translate(root)
    except (c19_translate.Untranslatable, SyntaxError, OSError, ValueError, IndexError, AttributeError) as e:
        ctx.obligation("tie:translate esutil/coords.py", False, "%s: %s" % (type(e).__name__, e))
        ctx.violation("source tie broken: esutil/coords.py (randsphere / randcap / rotate) is outside the subset the fail-closed "
                      "translator accepts: %s" % str(e)[:300],
                      {"kind": "source-tie", "error": "%s: %s" % (type(e).__name__, e),
                       "no_longer_checks": "C19 tie: regenerated formula chain = C19/Model.v (theorems are about Model.v)"},
                      found_input=False)
        return
    ctx.obligation("tie:translate esutil/coords.py", True, "")
    res = core.coq_lemmas(ctx.work + "/tie", c19_translate.PRE + defs, lemmas, shard=len(lemmas), tag="tie")
    bad = []
    for (st, _pr), (ok, msg) in zip(lemmas, res):
        ctx.obligation("tie:" + st.split(",")[1].strip()[:90], ok, msg)
        if not ok:
            bad.append((st, msg))
    # rational side: stat.interplin re-translated; numpy-level statements of random.py pinned
    try:
        qdefs, qlem = c19_translate.translate_q(root)
        pins = c19_translate.check_pins(root)
    except (c19_translate.Untranslatable, SyntaxError, OSError, ValueError, IndexError, AttributeError) as e:
        qdefs, qlem, pins = "", [], ["translation of esutil/stat/util.py or esutil/random.py failed closed: %s" % e]
    if qlem:
        qres = core.coq_lemmas(ctx.work + "/tieq", c19_translate.PRE_QT + qdefs, qlem, shard=len(qlem), tag="tieq")
        for (st, _pr), (ok, msg) in zip(qlem, qres):
            ctx.obligation("tie:" + st.split(",")[1].strip()[:90], ok, msg)
            if not ok:
                bad.append((st, msg))
        defs = defs + "\n" + qdefs
    ctx.obligation("tie:pinned statements (%d functions; none since round 6)" % len(c19_translate.PINS), not pins, "; ".join(pins))
    for pn in pins:
        bad.append(("ModelQ.v is no longer what the source says: " + pn, ""))
    lemmas = lemmas + qlem
    ctx.count("source-tie lemmas", len(lemmas))
    if bad:
        ctx.violation("source tie broken: the statements regenerated from esutil/coords.py and stat/util.py (or pinned in "
                      "random.py) are no longer the model the theorems are about (%d of %d ties fail; first: %s)"
                      % (len(bad), len(lemmas) + 1, bad[0][0][:160]),
                      {"kind": "source-tie", "failed": [b[0] for b in bad], "coq": bad[0][1][-1200:], "regenerated": defs,
                       "no_longer_checks": "C19 tie: regenerated formula chain = C19/Model.v"},
                      found_input=False)


ENTRIES = [SkyDiscrete(), GeneratorEntry(), CholeskyEntry(), RandomIndices()]

TRUSTED = [
    "Coq 8.16.1 kernel (coqc, vm_compute; no native_compute). Geometry theorems (style R) depend on the standard "
    "library's real-number axioms (ClassicalDedekindReals.sig_forall_dec, sig_not_dec, "
    "FunctionalExtensionality.functional_extensionality_dep) and Classical_Prop.classic; per-case certificates closed by "
    "`interval` additionally on the stdlib FloatAxioms.* / Uint63 specifications of the primitive floats/ints Interval "
    "computes with; sampler / Cholesky / index theorems (style Q) are closed under the global context",
    "hand-written models C19/Model.v (randsphere, randcap both branches, rotate, atbound over R) and C19/ModelQ.v "
    "(cumulative table, interplin, Cholesky sampler over Q).  Model.v is tied to the source twice: (i) the statement chains "
    "of randsphere, randcap (both branches, pole threshold, recursive call) and rotate are re-translated from "
    "esutil/coords.py on every run by the fail-closed translator harness/props/c19_translate.py and proved equal to the "
    "hand model by reflexivity (7 equalities); (ii) per-case certificates on the real outputs.  ModelQ.v is tied by "
    "verdict terms on every run (bounded by the generators).  The model describes the code after the repairs "
    "fixes/C19/0001, 0002 and fixes/C09/0004 (rotate)",
    "translator trusted for: the reading of numpy calls (np.deg2rad(x, x) as in-place d2r, np.clip(v, lo, hi, v) as "
    "min(max), rng.uniform(low, high) as low + (high-low)*u, k-th generator call = k-th deviate, atbound(x, 0, 360) as "
    "Model.atbound whose loops run at most once for |x| <= 720 (proved: atbound_once)), and for skipping the listed "
    "shape-handling statements (ndarray promotion, scalar unwrapping, rng default)",
    "monitored per case: numpy.linalg.cholesky returns a lower-triangular M with M M^T = cov (chol_oracle_b, sound: "
    "C19_cholesky_oracle_monitor_sound); in the model that contract is a theorem (cholR: correct, unique, defined exactly on the "
    "symmetric positive-definite matrices), the float factor itself is not compared with cholR.  Assumed: rng.uniform(low, high) "
    "= low + (high-low)*u for both generator families (stub generators implement it; seeded real generators are compared through "
    "twin deviates); the k-th generator call hands out the k-th block of the deviate stream (stub protocol monitored)",
    "modelled, not verified: IEEE rounding of the formula chains and libm (the gap between the R model and the float "
    "result is measured per case against kernel-checked enclosures: 1e-9 deg on the sky, 4e-15 in sin(dec)); "
    "scipy.integrate.cumulative_trapezoid, ndarray.searchsorted, numpy.dot/reshape/transpose (re-implemented in Gallina); "
    "rng.choice (judged by the property checker only); real PI for the binary64 constants pi, pi/180, 180/pi",
    "python harness (harness/props/C19.py, c19_rng.py), literal printers core.cR/cQ (exact dyadic rationals), coqc "
    "compiling the generated lemma files and evaluating Exec.v verdict terms",
]


def run(ctx, replay=None):
    ctx.rule = ("source tie: formula chains of randsphere/randcap/rotate/interplin re-translated from the source and proved "
                "equal to the hand model (reflexivity), numpy-level statements of random.py pinned.  geometry: every point "
                "returned by the real randcap/randsphere for given deviates (stub generators replaying "
                "them, or seeded real generators with twin-derived deviates) is certified by generated Coq lemmas over R "
                "(property on the float output incl. ranges [0,360]x[-90,90] + correspondence with the model; a failed property "
                "certificate counts as a failing input only when its negation is proved); samplers/indices: verdict terms "
                "over exact rationals.  non-trivial: cap with rad > 0 and u > 0 (point differs from the centre), box of non-zero extent, "
                "sampler with >= 3 grid points and >= 2 deviates, covariance >= 2x2, nrand >= 2 and imax >= 2; families "
                "(poles, seam, tiny radius, antipode, nodes, zero-width) counted separately; distinct by canonical JSON.")
    ctx.trusted = TRUSTED
    ok = core.proof_step(ctx, "C19", core.ALLOW_REALS + core.ALLOW_INTERVAL)
    if not ok:
        return
    if replay is not None and replay.get("kind") == "geometry-case":
        geometry(ctx, replay["case"])
        return
    if replay is not None and replay.get("kind") == "source-tie":
        source_tie(ctx)
        return
    if replay is not None:
        differential(ctx, PRE_Q, ENTRIES, replay)
        return
    source_tie(ctx)
    # Phase 1 (this thread, sequential): every call of the real code -- geometry cases first, then the four discrete
    # entries, each in case order, so that the history sequences are consecutive calls of one process and the random
    # numbers drawn from ctx.rng do not depend on scheduling.  Phase 2: coqc only -- the geometry certificates and the
    # verdict files of the entries (two at a time) are compiled side by side.  Phase 3: the generic triage loop.
    import threading
    import time as _time
    items = geometry_prepare(ctx, geometry_cases(ctx))
    for ent in ENTRIES:
        ent.prepare(ctx, 0)
    box = {}

    def guarded(name, fn):
        def run_():
            try:
                fn()
            except BaseException as e:  # noqa
                box[name] = e
        return threading.Thread(target=run_, name="C19-" + name)
    ths = [guarded("geometry", lambda: geometry_certify(ctx, items)),
           guarded("eval-a", lambda: [ENTRIES[k].evaluate(ctx, 0) for k in (1, 0)]),
           guarded("eval-b", lambda: [ENTRIES[k].evaluate(ctx, 0) for k in (2, 3)])]
    t0 = _time.time()
    for th in ths:
        th.start()
    for th in ths:
        th.join()
    ctx.count("wall_s:coqc phase (geometry and entries side by side)", round(_time.time() - t0, 1))
    for e in box.values():
        raise e
    differential(ctx, PRE_Q, ENTRIES, None)

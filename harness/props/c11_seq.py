"""C11 -- sequences of constructions / clones / calls in ONE process (history dimension).

A pristine "zygote" process imports esutil.cosmology but never constructs a Cosmo; every request (a list of steps) is
executed in a child FORKED from it, so the module-level state a step sequence sees is exactly the state that sequence
itself created.  The same executor serves the reference runs ("the same call on the same object built alone").

steps (JSON lists):
  ["new", oid, kw, form]            Cosmo(**kw) with the constructor input forms of C11.build      -> reported tuple
  ["reinit", oid, kw, form]         oid.__init__(**kw): the same object given a second parameter set            -> reported tuple
  ["clone", oid_new, oid_src, op]   0 copy() 1 copy.copy 2 copy.deepcopy 3/4/5 pickle (protocol highest/2/0) -> reported
  ["rep", oid]                      H0(), DH(), flat(), omega_m(), omega_l(), omega_k()             -> reported tuple
  ["del", oid]                      drop the last reference (address / id reuse by later objects)
  ["setarr", name, values]          new float64 array, or IN-PLACE update when `name` exists with the same length
  ["newarr", name, values]          always a new array object (equal contents, different identity)
  ["scribble", name, value]         name[...] = value in place (also for arrays RETURNED by an earlier call saved with a 5th element)
  ["call", oid, meth, args, save?]  args: float | {"arr": name} | {"sc": value, "t": scalar form}      -> ["ok", bits] | ["err", cls]
"""
import json
import os
import subprocess
import sys

VERIF = os.path.dirname(os.path.dirname(os.path.dirname(os.path.abspath(__file__))))


def execute(steps, K):
    """runs in a forked child of the zygote"""
    import gc
    import numpy as np
    from .. import core
    from . import C11
    C11._STATE["K"] = K
    objs, arrs, out = {}, {}, []
    for st in steps:
        kind = st[0]
        try:
            if kind == "new":
                objs[st[1]] = C11.build(st[2], st[3])
                out.append(C11.rep_of(objs[st[1]]))
            elif kind == "reinit":
                C11.build(st[2], st[3], reinit=objs[st[1]])
                out.append(C11.rep_of(objs[st[1]]))
            elif kind == "clone":
                objs[st[1]] = C11.apply_op(objs[st[2]], st[3])
                out.append(C11.rep_of(objs[st[1]]))
            elif kind == "rep":
                out.append(C11.rep_of(objs[st[1]]))
            elif kind == "del":
                del objs[st[1]]
                gc.collect()
                out.append(None)
            elif kind == "setarr":
                if st[1] in arrs and len(arrs[st[1]]) == len(st[2]):
                    arrs[st[1]][...] = st[2]
                else:
                    arrs[st[1]] = np.array(st[2], dtype="f8")
                out.append(None)
            elif kind == "newarr":
                arrs[st[1]] = np.array(st[2], dtype="f8")
                out.append(None)
            elif kind == "scribble":                       # the caller overwrites an array it owns (argument or returned result)
                arrs[st[1]][...] = st[2]
                out.append(None)
            elif kind == "call":
                args = []
                for a in st[3]:
                    if isinstance(a, dict) and "arr" in a:
                        args.append(arrs[a["arr"]])
                    elif isinstance(a, dict):
                        args.append(C11.mk_scalar(a["sc"], a["t"]))
                    else:
                        args.append(float(a))
                res = getattr(objs[st[1]], st[2])(*args)
                if len(st) > 4 and st[4] and isinstance(res, np.ndarray):
                    arrs[st[4]] = res                      # the caller keeps the RETURNED array under this name
                vals = [C11.bits(v) for v in np.atleast_1d(np.asarray(res, dtype="f8")).ravel()]
                out.append(["ok", vals])
            else:
                raise ValueError("unknown step %r" % (kind,))
        except Exception as e:  # noqa
            out.append(["err", core.errclass(e)])
    return out


def serve():
    """zygote main loop: one JSON request per line on stdin, one JSON answer per line on stdout"""
    import numpy  # noqa: F401  (preloaded for the children)
    import esutil.cosmology  # noqa: F401
    from . import C11  # noqa: F401
    inp, outp = sys.stdin, sys.stdout
    for line in inp:
        req = json.loads(line)
        r, w = os.pipe()
        pid = os.fork()
        if pid == 0:
            os.close(r)
            try:
                data = json.dumps({"out": execute(req["steps"], req["K"])})
            except BaseException as e:  # noqa
                data = json.dumps({"crash": repr(e)[:300]})
            with os.fdopen(w, "w") as f:
                f.write(data)
            os._exit(0)
        os.close(w)
        with os.fdopen(r) as f:
            data = f.read()
        _, status = os.waitpid(pid, 0)
        if not data:
            data = json.dumps({"crash": "child died with status %d" % status})
        outp.write(data + "\n")
        outp.flush()


class Server:
    def __init__(self, K):
        self.K = K
        self.p = None

    def start(self):
        code = "import sys; sys.path.insert(0, %r); from harness.props import c11_seq; c11_seq.serve()" % VERIF
        self.p = subprocess.Popen([sys.executable, "-c", code], stdin=subprocess.PIPE, stdout=subprocess.PIPE, text=True,
                                  cwd=VERIF)

    def run(self, steps):
        if self.p is None or self.p.poll() is not None:
            self.start()
        self.p.stdin.write(json.dumps({"steps": steps, "K": self.K}) + "\n")
        self.p.stdin.flush()
        line = self.p.stdout.readline()
        if not line:
            return {"crash": "zygote died"}
        return json.loads(line)

    def close(self):
        if self.p is not None:
            try:
                self.p.stdin.close()
                self.p.wait(timeout=10)
            except Exception:  # noqa
                self.p.kill()
            self.p = None
